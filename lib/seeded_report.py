#!/usr/bin/env python3
"""Builds /verif/seeded/<id>/ (patch.diff, demonstration, meta.json) and seeded/README.md from
  - seeded/_incoming/<PROP>/change_N.diff|demo_N.rs|change_N.md   (written by independent sub-agents)
  - seeded/_own/<NAME>/change_1.diff (+ demo_1.rs)                   (written by the framework author)
  - .build/confirm/*.result   (lib/confirm_seeded.sh: suite green with the change, demo fails with / passes without)
  - .build/mutant_results.txt (lib/mutant.sh runs: which check reported what)
  - .build/regress_fixes.txt  (lib/regress_fixes.sh: reverse of every fix: commit)
"""
import glob
import json
import os
import re
import shutil
import subprocess

ROOT = os.path.dirname(os.path.dirname(os.path.abspath(__file__)))
SEEDED = os.path.join(ROOT, "seeded")
def load_conf(d):
    conf = {}
    for f in glob.glob(os.path.join(ROOT, ".build", d, "*.result")):
        line = open(f).read().strip()
        conf[line.split()[0]] = line
    return conf


def load_det(fname):
    det = {}
    mr = os.path.join(ROOT, ".build", fname)
    if os.path.exists(mr):
        cur = None
        for line in open(mr):
            m = re.match(r"MUTANT (\S+)/change_(\d+)\.diff on (C\d+)( \w+)?: (.*)", line)
            if m:
                cur = (m.group(1), m.group(2))
                det[cur] = {"check": m.group(3), "result": m.group(5).strip(), "signatures": []}
            elif cur and line.startswith("  ["):
                det[cur]["signatures"].append(line.strip()[:260])
    return det


rows = []
SOURCES = [
    # directory, author, confirm results, detection results, kept-directory name
    ("_incoming", "agent (wave 1)", "confirm", "mutant_results.txt", "{name}-{n}"),
    ("_own", "own", "confirm", "mutant_results.txt", "{name}-{n}"),
    ("_incoming2", "agent (wave 2)", "confirm2", "mutant_results2.txt", "{name}-w2-{n}"),
    ("_incoming3", "agent (wave 3)", "confirm3", "mutant_results3.txt", "{name}-w3-{n}"),
    ("_incoming4", "agent (wave 4)", "confirm4", "mutant_results4.txt", "{name}-w4-{n}"),
    ("_incoming5", "agent (wave 5)", "confirm5", "mutant_results5.txt", "{name}-w5-{n}"),
    ("_incoming6", "agent (wave 6)", "confirm6", "mutant_results6.txt", "{name}-w6-{n}"),
]
for sub, author, confdir, detfile, fmt in SOURCES:
    conf = load_conf(confdir)
    det = load_det(detfile)
    own = author == "own"
    for d in sorted(glob.glob(os.path.join(SEEDED, sub, "*"))):
        name = os.path.basename(d)
        for diff in sorted(glob.glob(os.path.join(d, "change_?.diff"))):
            n = re.search(r"change_(\d)\.diff", diff).group(1)
            key = f"{name}/{n}"
            c = conf.get(key, "")
            ok = "existing_suites_failed=0" in c and "demo_with_change=[test result: FAILED" in c and "demo_without_change=[test result: ok" in c
            dd = det.get((name, n), {})
            prop = dd.get("check") or (name if re.fullmatch(r"C\d\d", name) else name[:3])
            kept = fmt.format(name=name, n=n)
            out = os.path.join(SEEDED, kept)
            if not ok:
                print("NOT KEPT (unconfirmed):", sub, key, c[:160])
                continue
            os.makedirs(out, exist_ok=True)
            shutil.copy(diff, os.path.join(out, "patch.diff"))
            demo = os.path.join(d, f"demo_{n}.rs")
            if os.path.exists(demo):
                shutil.copy(demo, os.path.join(out, "demo.rs"))
            md = os.path.join(d, f"change_{n}.md")
            notes = open(md).read() if os.path.exists(md) else ""
            ported = os.path.exists(os.path.join(d, f"change_{n}.original.diff"))
            meta = {
                "property": prop,
                "origin": "framework author" if own else "independent sub-agent given only the property text and a scratch worktree (" + author + ")",
                "ported_to_current_tree": ported,
                "what_it_needs_to_manifest": notes.strip()[:3000],
                "confirmed_in_scratch_worktree": {
                    "command": ("CONFIRM_PROFILE=--release " if sub == "_incoming6" and key != "C04/1" else "") + f"lib/confirm_seeded.sh seeded/{sub}/{name} {n} .build/{confdir}",
                    "existing_suite_passes_with_change": True,
                    "demonstration_fails_with_change": True,
                    "demonstration_passes_without_change": True,
                    "raw": c,
                },
                "detection": {
                    "command": f"lib/mutant.sh /verif/seeded/{kept}/patch.diff {prop}",
                    "result": dd.get("result", "not run"),
                    "first_signatures": dd.get("signatures", [])[:3],
                },
            }
            with open(os.path.join(out, "meta.json"), "w") as f:
                json.dump(meta, f, indent=1)
            caught = dd.get("result", "").startswith("exit=1")
            rows.append((kept, prop, author, "caught" if caught else ("MISSED" if dd else "not run"), (dd.get("signatures") or [""])[0][:110]))
reg = os.path.join(ROOT, ".build", "regress_fixes.txt")
regrows = []
if os.path.exists(reg):
    for line in open(reg):
        m = re.match(r"REGRESS (\w+) on (C\d+): exit=(\d+) :: (.*)", line)
        if m:
            subj = subprocess.run(["git", "-C", "/repo", "log", "-1", "--format=%s", m.group(1)], capture_output=True, text=True).stdout.strip()
            regrows.append((m.group(1), m.group(2), "caught" if m.group(3) == "1" else f"exit={m.group(3)}", subj[:90], m.group(4)[:100]))
        elif line.startswith("REGRESS") and "does not apply" in line:
            regrows.append((line.split()[1], "", "reverse patch does not apply on the current tree", "", ""))
with open(os.path.join(SEEDED, "README.md"), "w") as f:
    f.write("# Seeded changes and what catches them\n\nGenerated by `lib/seeded_report.py`.  Each `seeded/<name>/` holds `patch.diff` (apply with `git -C /repo apply`), the demonstration `demo.rs` (a test that fails with the change and passes without) and `meta.json`.  None of these changes is ever committed to /repo.\n\n")
    f.write("| seeded change | property | author | quick check | first signature reported |\n|---|---|---|---|---|\n")
    for r in rows:
        f.write("| " + " | ".join(x.replace("|", "/") for x in r) + " |\n")
    f.write("\n## Reverse of every `fix:` commit (the historical defects as seeded changes)\n\n`lib/regress_fixes.sh` reverse-applies each fix to the current tree and runs the named quick check.\n\n| fix commit | check | result | fix subject | first signature |\n|---|---|---|---|---|\n")
    for r in regrows:
        f.write("| " + " | ".join(x.replace("|", "/") for x in r) + " |\n")
print(f"{len(rows)} seeded changes kept, {len(regrows)} fix regressions listed")
