#!/bin/bash
# usage: confirm_seeded.sh <dir with change_N.diff demo_N.rs> <N> <outdir>
# CONFIRM_PROFILE=--release runs the suite and the demonstration in the release profile (wave 6: the debug
# suite takes ~10 min per change on the loaded machine; the agents ran it in debug themselves).
# Confirms in a scratch worktree (outside /repo and /verif) that a seeded change compiles, keeps the
# existing suite green, makes its demonstration fail, and that the demonstration passes without it.
dir="$1"; n="$2"; out="$3"; id=$(basename "$dir")
wt=/tmp/confirm/$id-$n
mkdir -p /tmp/confirm "$out"
res="$out/$id-$n.result"
git -C /repo worktree remove --force "$wt" >/dev/null 2>&1
git -C /repo worktree add -q --detach "$wt" HEAD || { echo "$id/$n WORKTREE-FAIL" > "$res"; exit 1; }
cp /repo/Cargo.lock "$wt/"
cd "$wt"
if ! git apply "$dir/change_$n.diff" 2>/dev/null; then
  echo "$id/$n applies=no" > "$res"; cd /; git -C /repo worktree remove --force "$wt"; exit 0
fi
feat=""; [ "$id" = "C18" ] && feat="--features rayon"
cp "$dir/demo_$n.rs" tests/demo_$n.rs
export CARGO_TARGET_DIR="$wt/target" CARGO_NET_OFFLINE=true
cargo test --offline --workspace --no-fail-fast $CONFIRM_PROFILE $feat > "$out/$id-$n.with.log" 2>&1
# existing tests: every 'test result' line of a non-demo binary must be ok
demo_with=$(awk '/Running tests\/demo_/{f=1} f&&/^test result/{print; exit}' "$out/$id-$n.with.log")
others_failed=$(awk '/Running|Doc-tests/{cur=$0} /^test result: FAILED/{ if (cur !~ /demo_/) print cur }' "$out/$id-$n.with.log" | wc -l)
compile_err=$(grep -c "^error" "$out/$id-$n.with.log")
git checkout -q -- src
cargo test --offline $CONFIRM_PROFILE $feat --test demo_$n > "$out/$id-$n.without.log" 2>&1
demo_without=$(grep "^test result" "$out/$id-$n.without.log" | head -1)
echo "$id/$n applies=yes compile_errors=$compile_err existing_suites_failed=$others_failed demo_with_change=[$demo_with] demo_without_change=[$demo_without]" > "$res"
cd /; git -C /repo worktree remove --force "$wt"
