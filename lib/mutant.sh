#!/bin/bash
# usage: lib/mutant.sh <patch.diff> <ID> [tier]   -- applies a seeded change to /repo, runs the check, reverts.
# Evidence of these runs goes to a scratch directory, never to /verif/evidence.
set -u
patch="$1"; id="$2"; tier="${3:-quick}"
cd /repo || exit 9
if ! git diff --quiet; then echo "MUTANT $patch: /repo has uncommitted changes, refusing"; exit 9; fi
if ! git apply "$patch" 2>/tmp/mutant_apply.err; then
  echo "MUTANT $(basename $(dirname $patch))/$(basename $patch) on $id: DOES-NOT-APPLY ($(head -1 /tmp/mutant_apply.err))"; git checkout -q -- . ; exit 8
fi
cd /verif
out=$(VERIF_EVIDENCE_DIR=/verif/.build/evidence-scratch ./check "$id" "$tier" 2>&1)
rc=$?
cd /repo && git checkout -q -- . && git clean -qfd src tests 2>/dev/null
sig=$(echo "$out" | grep -E "^  \[" | head -3 | cut -c1-220)
echo "MUTANT $(basename $(dirname $patch))/$(basename $patch) on $id $tier: exit=$rc $(echo "$out" | grep -c '^VIOLATION') violation line(s)"
echo "$sig"
exit $rc
