"""Per-property check specifications used by ./check."""


def h(m, dim, key=None):
    d = m["hist"].get(dim, {})
    if key is None:
        return sum(d.values())
    return d.get(str(key), 0)


def keys(m, dim):
    return len(m["hist"].get(dim, {}))


ENC_RULE = ("cases = (encoder options, writer front-end, PCM recipe); systematic part enumerates every length 1..66 x "
            "{1,2} channels x {8,16,24,32} bits x option presets x signals, then seeded random option sets (channels 1-8, "
            "1-32 bits, all rate codings, block 16..4608, LPC none/1..32, partition order 0..15, windows, padding, seek "
            "tables) x 18 signal generators x boundary lengths; a case is NON-TRIVIAL when the independent decoder's frame "
            "table shows >= 1 FIXED/LPC subframe or a stereo-decorrelated frame; DISTINCT by hash of "
            "(options, signal, length, front-end)")

PROPS = {
    "C01": {
        "engine": "c01",
        "level": "exploration",
        "profiles": ["release", "checked"],
        "budget": {"quick": 14, "thorough": 240},
        "claim": "Runtime monitoring of the real encoder+decoders over an enumerated-then-random workload: every finalized stream is decoded through all 8 reader front-ends (+verify_reader) and compared sample-for-sample with what was written, in the release profile and in a profile with overflow checks and debug assertions. Held = no refuting execution among those observed; the input space is sampled (all short lengths are enumerated).",
        "note": "trusts the PCM generators to stay in range and the harness's own byte (de)serialisation; the reference decoder only classifies coverage here",
        "technique": "runtime monitoring: round-trip oracle over generated workloads, panic/CPU/alloc monitors, release + overflow-checked builds",
        "design_ref": "DESIGN.md section 4 C01",
        "rule": ENC_RULE + "; oracle: all 8 reader front-ends + verify_reader must return exactly the written PCM/metadata",
        "quotas": {
            "all four subframe kinds seen": lambda m: all(any(k.startswith(p) for k in m["hist"].get("subframe", {})) for p in ("constant", "verbatim", "fixed", "lpc")),
            "all writer front-ends used": lambda m: keys(m, "front") == 4,
            "all reader front-ends used": lambda m: keys(m, "reader") == 8,
            ">= 2000 evaluations": lambda m: m["evaluations"] >= 2000,
        },
        "assumptions": ["PCM generators only produce samples inside the declared bit depth",
                        "reference decoder (flacref) used only for coverage classification here, not for the verdict"],
    },
    "C02": {
        "engine": "c02",
        "level": "exploration",
        "profiles": ["release"],
        "budget": {"quick": 14, "thorough": 240},
        "claim": "Every byte string the encoder produced in the explored workload is judged by an independent strict RFC 9639 validator (own bit reader, bit-serial CRCs, own MD5, 64-bit prediction arithmetic, all header/residual/partition/padding/numbering rules) which must accept it and reconstruct exactly the input PCM. Held = no nonconforming output among the frames observed (count in evidence).",
        "note": "trusted base is the flacref validator itself (cross-checked against libFLAC-made fixtures and its own generator); the crate's decoder is not part of the oracle",
        "technique": "runtime monitoring with an independent reference decoder as online oracle over encoder output",
        "design_ref": "DESIGN.md section 4 C02 and section 6",
        "rule": ENC_RULE + "; oracle: flacref strict validator (written from RFC 9639, no shared code) must accept the bytes "
                           "and reconstruct exactly the input PCM; the crate's decoder is not consulted",
        "quotas": {
            "all four subframe kinds validated": lambda m: all(any(k.startswith(p) for k in m["hist"].get("subframe", {})) for p in ("constant", "verbatim", "fixed", "lpc")),
            "both residual coding methods validated": lambda m: keys(m, "coding_method") == 2,
            ">= 10000 frames validated": lambda m: h(m, "frames_validated") >= 10000,
        },
        "assumptions": ["flacref::dec implements RFC 9639 correctly (cross-checked against six libFLAC-made fixtures and its own generator)"],
    },
}


# properties not (yet) claimed: id -> reason
NOT_APPLICABLE = {f"C{n:02d}": "check not built yet (framework under construction; see DESIGN.md section 4 for the planned monitor)" for n in range(1, 21)}
