"""Per-property check specifications used by ./check."""


def h(m, dim, key=None):
    d = m["hist"].get(dim, {})
    if key is None:
        return sum(d.values())
    return d.get(str(key), 0)


def keys(m, dim):
    return len(m["hist"].get(dim, {}))


ENC_RULE = ("cases = (encoder options, writer front-end, PCM recipe); systematic part enumerates every length 1..66 x "
            "{1,2} channels x {8,16,24,32} bits x option presets x signals, then seeded random option sets (channels 1-8, "
            "1-32 bits, all rate codings, block 16..4608, LPC none/1..32, partition order 0..15, windows, padding, seek "
            "tables) x 18 signal generators x boundary lengths; a case is NON-TRIVIAL when the independent decoder's frame "
            "table shows >= 1 FIXED/LPC subframe or a stereo-decorrelated frame; DISTINCT by hash of "
            "(options, signal, length, front-end)")

PROPS = {
    "C01": {
        "engine": "c01",
        "level": "exploration",
        "profiles": ["release", "checked"],
        "budget": {"quick": 14, "thorough": 240},
        "miri": {"thorough": {"engine": "c01", "args": ["--tiny"], "procs": 16, "features": "noalloc"}},
        "claim": "Runtime monitoring of the real encoder+decoders over an enumerated-then-random workload: every finalized stream is decoded through all 8 reader front-ends (+verify_reader) and compared sample-for-sample with what was written, in the release profile and in a profile with overflow checks and debug assertions. Held = no refuting execution among those observed; the input space is sampled (all short lengths are enumerated). Thorough additionally runs 16 processes of tiny round trips under the Miri interpreter (undefined behaviour in the unsafe code of dependencies reached by the encoder/decoder would abort it).",
        "note": "trusts the PCM generators to stay in range and the harness's own byte (de)serialisation; the reference decoder only classifies coverage here",
        "technique": "runtime monitoring: round-trip oracle over generated workloads, panic/CPU/alloc monitors, release + overflow-checked builds; Miri interpreter on tiny round trips in the thorough tier",
        "design_ref": "DESIGN.md section 4 C01",
        "rule": ENC_RULE + "; oracle: all 8 reader front-ends + verify_reader must return exactly the written PCM/metadata",
        "quotas": {
            "all four subframe kinds seen": lambda m: all(any(k.startswith(p) for k in m["hist"].get("subframe", {})) for p in ("constant", "verbatim", "fixed", "lpc")),
            "all writer front-ends used": lambda m: keys(m, "front") == 4,
            "all reader front-ends used": lambda m: keys(m, "reader") == 8,
            ">= 2000 evaluations": lambda m: m["evaluations"] >= 2000,
        },
        "assumptions": ["PCM generators only produce samples inside the declared bit depth",
                        "reference decoder (flacref) used only for coverage classification here, not for the verdict"],
    },
    "C02": {
        "engine": "c02",
        "level": "exploration",
        "profiles": ["release"],
        "budget": {"quick": 14, "thorough": 240},
        "claim": "Every byte string the encoder produced in the explored workload is judged by an independent strict RFC 9639 validator (own bit reader, bit-serial CRCs, own MD5, 64-bit prediction arithmetic, all header/residual/partition/padding/numbering rules) which must accept it and reconstruct exactly the input PCM. Held = no nonconforming output among the frames observed (count in evidence).",
        "note": "trusted base is the flacref validator itself (cross-checked against libFLAC-made fixtures and its own generator); the crate's decoder is not part of the oracle",
        "technique": "runtime monitoring with an independent reference decoder as online oracle over encoder output",
        "design_ref": "DESIGN.md section 4 C02 and section 6",
        "rule": ENC_RULE + "; oracle: flacref strict validator (written from RFC 9639, no shared code) must accept the bytes "
                           "and reconstruct exactly the input PCM; the crate's decoder is not consulted",
        "quotas": {
            "all four subframe kinds validated": lambda m: all(any(k.startswith(p) for k in m["hist"].get("subframe", {})) for p in ("constant", "verbatim", "fixed", "lpc")),
            "both residual coding methods validated": lambda m: keys(m, "coding_method") == 2,
            ">= 10000 frames validated": lambda m: h(m, "frames_validated") >= 10000,
        },
        "assumptions": ["flacref::dec implements RFC 9639 correctly (cross-checked against six libFLAC-made fixtures and its own generator)"],
    },
}

PROPS.update({
    "C03": {
        "engine": "c03",
        "level": "exploration",
        "profiles": ["release", "checked"],
        "budget": {"quick": 12, "thorough": 200},
        "fuzz": {"thorough": {"targets": [{"bin": "fz_decode", "corpus": "decode", "mode": "parity", "replay": "decode-parity", "seconds": 300}]}},
        "claim": "The crate's decoders are run on streams produced by an independent structure-aware generator that chooses every syntactic alternative of the RFC 9639 frame grammar independently (each-choice coverage in the systematic part: every block-size/sample-rate/bit-depth coding, LPC order 1-32 x precision {1,7,15} x shift {0,15}, every Rice/Rice2 parameter, every escape width, wasted bits on each channel role, 33-bit side channels, 1-7 byte coded numbers, variable block size) and derives residuals from target PCM, so each stream is valid by construction and confirmed by the reference validator. All 8 reader front-ends (also over 1-byte-read sources) must return exactly the target PCM and verify_reader must report the MD5 status the generator arranged. Held = no divergence on the streams observed. Thorough adds a coverage-guided stage: libFuzzer (ASan + overflow-checked build, 16 forks, checksum-preserving custom mutator, seeded from generator output) mutates streams and every input that the strict reference validator accepts as a valid stream (and whose metadata the crate's metadata reader accepts) goes through the same parity oracle; the evolved corpus is replayed through the release and checked builds and the number of reference-valid units is reported.",
        "note": "generator and reference validator (flacref) are the trusted base; a generator/validator disagreement is reported as inconclusive, never as a violation; constructs on which the RFC is debatable (empty first partition) are not generated",
        "technique": "runtime monitoring: grammar-based valid-stream generator + reference model as oracle for the decoder, release + overflow-checked builds; coverage-guided (libFuzzer) input selection with the same reference-model oracle in the thorough tier",
        "design_ref": "DESIGN.md section 4 C03, section 6",
        "rule": "a case = one generated stream (params, PCM, per-frame plan); systematic each-choice list (~600 streams) then seeded random plans; NON-TRIVIAL when the stream contains >= 1 FIXED/LPC subframe; DISTINCT by hash of the stream bytes",
        "quotas": {
            "LPC orders 1..32 all decoded": lambda m: all(f"lpc{o}" in m["hist"].get("subframe", {}) for o in range(1, 33)),
            "all 15 block-size codes decoded": lambda m: keys(m, "bs_code") == 15,
            "all 15 sample-rate codes decoded": lambda m: keys(m, "rate_code") == 15,
            "all 7 bit-depth codes decoded": lambda m: keys(m, "bps_code") == 7,
            "Rice parameters 0..14 and Rice2 0..30 decoded": lambda m: keys(m, "rice_param") == 15 and keys(m, "rice2_param") == 31,
            "escape widths 0..31 decoded": lambda m: keys(m, "escape_width") == 32,
            "coded numbers of 1..7 bytes decoded": lambda m: keys(m, "number_bytes") == 7,
            "all 11 channel assignments decoded": lambda m: keys(m, "ch_code") == 11,
            "all three verify outcomes exercised": lambda m: keys(m, "verify") == 3,
        },
        "assumptions": ["flacref::sgen emits only valid streams (each is re-validated by flacref::dec before use)"],
    },
    "C04": {
        "engine": "c04",
        "level": "exploration",
        "profiles": {"quick": ["release", "checked"], "thorough": ["release", "checked", "asan"]},
        "budget": {"quick": 14, "thorough": 200},
        "fuzz": {"thorough": {"targets": [{"bin": "fz_decode", "corpus": "decode", "mode": "total", "replay": "decode-total", "seconds": 300}]}},
        "miri": {"thorough": {"engine": "c04", "args": ["--tiny"], "procs": 32, "features": "noalloc"}},
        "claim": "Every decoding / frame-parsing entry point (3 file readers plain + seekable with seeks, raw stream reader, verify_reader, read_blocks, FrameIterator + Subframe::decode, generate_seektable, Frame/FrameHeader::read[_subset] at every sync-looking offset) is driven over hostile inputs while a panic monitor, a per-case CPU-time budget (20 s + 1 ms/byte, thread CPU time, enforced by an in-process watchdog), an allocation monitor (peak <= 48 MiB + 64 n, counting global allocator) and an output-volume bound watch it, in the release profile and with overflow checks + debug assertions (thorough adds an AddressSanitizer build). Inputs: generator malform knobs with valid CRCs (each-choice), CRC-repaired mutations of valid frames, STREAMINFO/SEEKTABLE that lie about valid frames, random and sync-rich bytes, spliced streams, mutated crate output, truncated fixtures. Thorough adds (i) an AddressSanitizer build of the same shards, (ii) a coverage-guided stage - libFuzzer on an ASan + overflow-checked build with 16 forks, a custom mutator that keeps frame checksums consistent three times out of four, seeded from generator output; the fuzz target runs the same entry-point driver and monitors, every artifact and the whole evolved corpus are replayed through the release and checked builds (counting allocator active) and only what those monitors confirm (or a deterministic sanitizer report) is a violation - and (iii) 32 Miri-interpreter processes over tiny CRC-valid malformed files. Held = no monitor fired on the executions observed.",
        "note": "the monitors see only paths the workload reaches; 'never hangs' is restated as the CPU budget; allocation bound constants are fixed in DESIGN.md",
        "technique": "runtime monitoring + sanitizers: panic/CPU/allocation/output monitors over structure-aware malformed inputs; overflow-checked and ASan builds; coverage-guided libFuzzer stage feeding the same monitors; Miri interpreter on tiny inputs",
        "design_ref": "DESIGN.md section 4 C04, section 3.2",
        "rule": "a case = one byte string driven through all 13 entry-point groups; classes: malform-knob, crc-repaired-mutation, lying-metadata, encoded-mutated, splice, sync-rich, random, fixture(-truncated); NON-TRIVIAL = every class except raw random bytes (they carry structure that reaches the parsers); DISTINCT by hash of the bytes",
        "quotas": {
            ">= 20 distinct error variants returned": lambda m: keys(m, "error_variant") >= 20,
            "all input classes exercised": lambda m: keys(m, "input_class") >= 7,
            "all 13 entry-point groups driven": lambda m: keys(m, "entry_point") >= 13,
            ">= 1000 evaluations": lambda m: m["evaluations"] >= 1000,
        },
        "assumptions": ["harness allocations are excluded by discarding decoded samples while the allocation monitor is active"],
    },
    "C05": {
        "engine": "c05",
        "level": "fault_enumeration",
        "profiles": ["release", "checked"],
        "budget": {"quick": 10, "thorough": 60},
        "claim": "For every file of a corpus of small valid files (crate-encoded and generator-made; quick 256, thorough 4096 files) EVERY single-bit flip of every audio-frame byte and EVERY truncation length is applied and the altered file is decoded through three reader front-ends + verify_reader. Oracle: the samples delivered before the error are exactly the original PCM of k whole frames (frame table from the reference decoder); if no error was reported, the reference validator (only rules that hold under every reading of the RFC) must accept the altered bytes as a stream decoding to the same output, otherwise it is a silent acceptance; verify_reader may say MD5Match only if the PCM hashes to the stored digest. Plus ~25 must-reject classes generated with valid checksums in first/middle/last frame. Exhaustive per corpus file; the corpus itself is a sample.",
        "note": "fault space per file is enumerated completely; which faults are 'another valid stream' is decided by flacref::dec (Rules::LENIENT)",
        "technique": "fault enumeration (all bit flips x all truncations per file) with prefix-of-whole-frames oracle and independent validity adjudication",
        "design_ref": "DESIGN.md section 4 C05, section 6 list R",
        "rule": "evaluations = altered files judged (each through 3 readers + verify); DISTINCT NON-TRIVIAL = corpus files whose unaltered form decodes correctly plus must-reject files adjudicated invalid, by hash of bytes",
        "quotas": {
            ">= 100000 faults judged": lambda m: m["evaluations"] >= 100000,
            "bit flips and truncations both observed ending in errors": lambda m: h(m, "outcome", "bitflip:error") > 0 and h(m, "outcome", "truncation:error") > 0,
            ">= 20 must-reject classes": lambda m: keys(m, "must_reject_class") >= 20,
        },
        "assumptions": ["single-bit flips are confined to the audio frames as the property states; metadata flips are covered by C12"],
    },
    "C06": {
        "engine": "c06",
        "level": "exploration",
        "profiles": ["release", "checked"],
        "budget": {"quick": 12, "thorough": 150},
        "claim": "Random operation histories (read / fill_buf / consume / seek with targets at 0, frame boundaries +-1, mid-frame, last, end, end+1, far beyond; byte reader also Current(+-d), End(-d), End(+d) and positions inside a PCM frame, with a Current(0) position probe after every seek) are executed on all four seekable reader front-ends against a sequential model (decoded PCM array + cursor). Files: crate-encoded with every seek-table policy and generator-made with none/empty/sparse/per-frame/placeholder-only seek tables, fixed and variable block size, 1-8 channels, 1-32 bits, total known/unknown; content is position-coded so a misplaced read names where it came from. Seeks beyond the end must fail; after a failed seek nothing is judged until the next absolute seek; readers opened with new() must refuse to seek.",
        "note": "model = reference decoder's PCM; position after a failed seek is treated as unspecified",
        "technique": "runtime monitoring: sequential call histories checked online against an executable reference model",
        "design_ref": "DESIGN.md section 4 C06",
        "rule": "a case = (file, reader front-end, operation history of 5-60 ops); NON-TRIVIAL when the history contains a successful seek followed by a non-empty read that was compared with the model; DISTINCT by hash(file bytes, reader, history)",
        "quotas": {
            ">= 5000 successful seeks followed by verified data": lambda m: h(m, "successful_seek_then_data") >= 5000,
            "failed (beyond-end) seeks observed": lambda m: h(m, "failed_seeks") >= 500,
            "all four readers, seekable and not": lambda m: keys(m, "reader") == 8,
        },
    },
    "C07": {
        "engine": "c07",
        "level": "exploration",
        "profiles": ["release", "checked"],
        "budget": {"quick": 10, "thorough": 150},
        "claim": "Random consumption histories (read(n), fill_buf, partial consume(k), then a terminal drain via read_to_end / iterator / read loop) with sizes from {1,2,3,channels,channels+1,7,64,255,4096,100000} run on all four reader front-ends over sources that fragment their reads (whole, 1-byte, random chunk plans, and for small files every two-chunk split point). Conservation oracle: the concatenation of everything returned equals the reference PCM exactly once (checked incrementally against the model cursor), the byte readers equal the PCM serialised at ceil(bps/8) bytes in the selected order, the channel reader equals the de-interleaved PCM, and after end-of-stream five further polls all signal end-of-stream.",
        "note": "model = reference decoder's PCM and the harness's own byte serialisation",
        "technique": "runtime monitoring: exactly-once / in-order conservation monitor over call histories and source segmentations",
        "design_ref": "DESIGN.md section 4 C07",
        "rule": "a case = (file, reader front-end, source segmentation, history); NON-TRIVIAL when >= 1 item was delivered and compared; DISTINCT by hash(file, reader, source, history)",
        "quotas": {
            "all three source kinds": lambda m: keys(m, "source") == 3,
            "every reader reached end of stream": lambda m: keys(m, "reached_eos") == 4,
            ">= 1e6 items compared": lambda m: h(m, "items_checked") >= 1000000,
        },
    },
})

PROPS.update({
    "C08": {
        "engine": "c08",
        "level": "exploration",
        "profiles": ["release", "checked"],
        "budget": {"quick": 12, "thorough": 150},
        "claim": "The finished file is compared byte-for-byte with a one-call reference encode while the same PCM is fed (a) through EVERY two-call split point (and all three-call splits for inputs <= 40 units) of small inputs - in samples for the sample writer incl. mid-PCM-frame, in bytes for both byte-order writers incl. mid-sample, in PCM frames for the channel writer - (b) through random chunkings with empty calls for inputs spanning several blocks, (c) repeatedly. A trailing partial PCM frame (incl. less than one whole frame in total and exact block multiples) must give the file of the truncated input, or the same refusal when nothing whole was written, never a panic.",
        "note": "exhaustive only in the split sub-space of each small input; options/PCM are sampled",
        "technique": "runtime monitoring: differential determinism oracle over call histories (exhaustive split enumeration for small inputs)",
        "design_ref": "DESIGN.md section 4 C08",
        "rule": "a case = (options, PCM, front-end, split plan); NON-TRIVIAL when the input was split over >= 2 calls (or carried a partial frame) and the output was compared with the reference; DISTINCT by hash(reference bytes, front-end, split plan)",
        "quotas": {
            "all four front-ends": lambda m: keys(m, "front") == 4,
            ">= 20000 split encodes compared": lambda m: m["evaluations"] >= 20000,
            "partial-frame cases on 3 front-ends": lambda m: keys(m, "partial_frame_front") == 3,
            ">= 50 channel-writer histories with refused calls": lambda m: h(m, "refused_call_histories") >= 50,
        },
    },
    "C09": {
        "engine": "c09",
        "level": "exploration",
        "profiles": ["release", "checked"],
        "budget": {"quick": 12, "thorough": 150},
        "claim": "Each finished file is parsed by the independent validator to obtain the truth (sample count, frame table with byte offsets/lengths, PCM, own MD5) and every STREAMINFO field and every defined seek point is compared with it (points name first sample / offset from first frame / length of an actual frame, strictly ascending, placeholders trailing; regenerating the table from the file with the same interval gives the same points). An offline checker over the recorded write/seek event log of the sink verifies that before finalize every write is a sequential append, that finalize's rewrite starts at the remembered stream start and ends exactly at the first frame, that the stream length does not change and that bytes preceding the stream start (writer handed in at offset 0/1/1000) are untouched. Configurations cross seek-table policy x declared/undeclared x padding absent/too small/exact/ample x start offset; one case writes more frames than a seek table can hold (932100).",
        "note": "truth comes from flacref::dec; the event log is recorded at the Write+Seek object handed to the crate",
        "technique": "runtime monitoring: independent re-measurement of the finished file + offline checker over the recorded I/O event log",
        "design_ref": "DESIGN.md section 4 C09",
        "rule": "a case = (options, front-end, PCM recipe, start offset); NON-TRIVIAL when the file was produced and all comparisons ran; DISTINCT by hash(file bytes, start offset)",
        "quotas": {
            "seek points checked": lambda m: h(m, "seekpoints_checked") >= 1000,
            "regenerated tables compared": lambda m: h(m, "regenerated_table", "identical") >= 200,
            "all seek policies": lambda m: keys(m, "seek_policy") == 4,
            "the > 932067-frame case ran": lambda m: h(m, "huge_frame_count_case", "run") >= 1,
        },
    },
    "C13": {
        "engine": "c13",
        "level": "fault_enumeration",
        "profiles": ["release"],
        "budget": {"quick": 10, "thorough": 120},
        "claim": "For each scenario instance (encode+finalize through every writer front-end; write_blocks; update_file in place growing/shrinking/equal and rebuilding, with faults on the original file object and on the rebuilt sink; decoding and verify_reader through a faulty source) a fault-free run counts the underlying write/flush/seek/read calls and then EVERY call index of every kind is failed once per mode: permanent, transient, legal short transfer, and ErrorKind::Interrupted. Oracle: result Ok => the sink holds exactly the fault-free bytes (a dropped unflushed buffer shows as Ok with stale bytes); a failing read => Err or complete correct data, never truncated-but-Ok; no panic.",
        "note": "exhaustive over call indices per scenario instance; the instances (inputs/options) are sampled",
        "technique": "fault injection with exhaustive enumeration of failing call indices at the I/O boundary",
        "design_ref": "DESIGN.md section 4 C13",
        "rule": "evaluations = faulted runs; DISTINCT NON-TRIVIAL = scenario instances (by hash of their fault-free output) for which the whole fault space was enumerated",
        "quotas": {
            "all four scenarios": lambda m: all(any(k.startswith(p) for k in m["hist"].get("fault_points", {})) for p in ("encode:", "write_blocks:", "update:", "decode:")),
            "in-place and rebuild update paths": lambda m: keys(m, "update_path") == 2,
            "equal-size, shrinking and growing edits": lambda m: keys(m, "update_size_relation") == 3,
            ">= 50000 faulted runs": lambda m: m["evaluations"] >= 50000,
        },
    },
    "C14": {
        "engine": "c14",
        "level": "fault_enumeration",
        "profiles": ["release", "checked"],
        "budget": {"quick": 8, "thorough": 100},
        "claim": "Encodes are abandoned before finalize (the writer is leaked, so neither finalize nor Drop runs) into a recording sink; EVERY write-call boundary and, for pre-finalize streams <= 4 KiB, EVERY byte length is used as crash point. Each prefix is decoded with three reader front-ends; oracle: the delivered PCM equals exactly the samples of all frames that lie completely inside the prefix (frame boundaries from the independent decoder run on the full pre-finalize stream with its provisional header) - nothing missing, nothing extra - before end of data or an error. Declared/undeclared totals, all seek-table policies, padding variants, all front-ends.",
        "note": "crash model = prefix of the byte stream at the sink; reordering of writes by an OS cache is outside the model",
        "technique": "crash-point enumeration over the recorded pre-finalize byte stream with an independent frame table as oracle",
        "design_ref": "DESIGN.md section 4 C14",
        "rule": "evaluations = (prefix, reader) decodes; DISTINCT NON-TRIVIAL = abandoned encodes (hash of the pre-finalize stream) whose complete crash-point set was enumerated",
        "quotas": {
            "byte-granular and call-granular crash points": lambda m: keys(m, "crash_points") == 2,
            "frames recovered before an error and before clean EOS": lambda m: h(m, "outcome", "frames-recovered-then-error") > 0 and h(m, "outcome", "frames-recovered-then-eos") > 0,
        },
    },
    "C15": {
        "engine": "c15",
        "level": "exploration",
        "profiles": ["release", "checked"],
        "budget": {"quick": 12, "thorough": 120},
        "claim": "Full cross product of boundary/interior values: 17 bit depths x 12 channel counts x 13 sample rates x 114 option sets (block size, max LPC order, max partition order, padding incl. 0/max/max+1) over the three file writers with and without a declared total, plus declared-total boundary values and a FlacStreamWriter::write parameter grid. Oracle: never a panic (both profiles); every documented-legal combination constructs AND works (a short signal is written, finalized and round-trips). Declared-length automaton: random (declared N, written M, block size, 1-5 write calls, front-end) histories: M>N => some call fails and the overall result is never Ok; M<N => finalize fails; M==N => Ok and the file carries N; undeclared => STREAMINFO total == written.",
        "note": "the grid is enumerated completely in the thorough tier; the quick tier thins the option sets for out-of-range stream parameters",
        "technique": "runtime monitoring over an enumerated configuration grid + contract automaton over write histories",
        "design_ref": "DESIGN.md section 4 C15",
        "rule": "a case = one grid point or one declared-length history; NON-TRIVIAL = legal grid points whose writer worked end-to-end and histories whose outcome was judged; DISTINCT by hash of the parameters",
        "quotas": {
            "legal and illegal grid points": lambda m: h(m, "grid_point", "documented-legal") >= 1000 and h(m, "grid_point", "out-of-range") >= 1000,
            "under, exact and over filling histories": lambda m: all(h(m, "declared_length_history", k) > 50 for k in ("under", "exact", "over")),
        },
    },
})

PROPS.update({
    "C11": {
        "engine": "c11",
        "level": "exploration",
        "profiles": ["release", "checked"],
        "budget": {"quick": 10, "thorough": 120},
        "claim": "Random block lists are built through the public constructors and fields (STREAMINFO at field extremes incl. 1-bit and 32-bit depth, rate 0 and 2^20-1, totals to 2^36-1; comments with arbitrary UTF-8, empty and '='-less fields; all 21 picture types; application data; seek tables with trailing placeholders; CD-DA cue sheets imported from generated text up to 99 tracks x 100 indices; non-CD-DA cue sheets with up to 254 tracks and 255/256 indices) and written with write_blocks; when the writer succeeds the reader must accept the output and return equal blocks, and each block's bytes()/total_size() must equal the body length measured by an independent walker. Sections serialised by an independent builder (non-canonical but acceptable encodings: non-zero padding bytes, placeholder points with junk fields) that the reader accepts must be writable again and re-read equal. Lists breaking the single-instance / STREAMINFO-first / 24-bit size rules must be refused with an error (legal boundary lists accepted), never a panic.",
        "note": "equality is the crate's own PartialEq on Block; sizes are measured by flacref's metadata walker",
        "technique": "runtime monitoring: round-trip and size-accounting oracles over generated block values, independent walker as size oracle",
        "design_ref": "DESIGN.md section 4 C11",
        "rule": "a case = one block list or one independently serialised section; NON-TRIVIAL when it was written and read back (or accepted, re-written and re-read) and compared; DISTINCT by hash of the serialised bytes",
        "quotas": {
            "all seven block types written": lambda m: keys(m, "block_type") == 7,
            "sizes checked for all seven block types": lambda m: keys(m, "sizes_checked") == 7,
            "rule-breaking and boundary lists": lambda m: keys(m, "rule_case") >= 13,
            "reader accepted independently serialised sections": lambda m: h(m, "reader_outcome", "accepted") >= 100,
        },
    },
    "C12": {
        "engine": "c12",
        "level": "exploration",
        "profiles": {"quick": ["release", "checked"], "thorough": ["release", "checked", "asan"]},
        "budget": {"quick": 10, "thorough": 150},
        "fuzz": {"thorough": {"targets": [{"bin": "fz_meta", "corpus": "meta", "replay": "meta", "seconds": 200},
                                          {"bin": "fz_cue", "corpus": "cue", "replay": "cue", "seconds": 120}]}},
        "miri": {"thorough": {"engine": "c12", "args": ["--tiny"], "procs": 16, "features": "noalloc"}},
        "claim": "BlockList::read, read_blocks, read_info and read_block::<T> are driven over hostile metadata sections (inner length/count fields of VORBIS_COMMENT and PICTURE pushed to 0/2^24/2^31/2^32-1, seek tables of illegal shapes, cue sheets with track/index numbers and offsets at their extremes incl. 255/256 and near u64::MAX, reserved block types, lying block-header lengths, truncations, bit-mutated crate-serialised lists, random bytes) under panic / CPU-time / allocation monitors, in release and with overflow checks; on EVERY list that parses every accessor is called (duration, decoded_len, channel_mask, total_samples, md5, cue sheet track_sample_ranges, track_byte_ranges, tracks, display, catalog_number, track_count, lead_in_samples, comment lookups). Cuesheet::parse runs on nearly-valid texts with one perturbed element and on hostile texts with extreme numbers; Picture::new runs on PNG/JPEG/GIF headers with every field at extremes, truncated and random bytes. Thorough adds an AddressSanitizer build, two coverage-guided libFuzzer targets (metadata bytes incl. image sniffers; cue text) that run the same drivers and monitors in an ASan + overflow-checked build with artifacts and evolved corpus replayed through release/checked, and 16 Miri-interpreter processes over small sections, cue texts and image headers.",
        "note": "totality is observed, not proved; 'bounded allocation' uses the fixed bound 48 MiB + 64 n from DESIGN.md",
        "technique": "runtime monitoring + sanitizers: panic/CPU/allocation monitors over grammar-extreme metadata, cue text and image headers; overflow-checked and ASan builds; coverage-guided libFuzzer stage feeding the same monitors; Miri interpreter on small inputs",
        "design_ref": "DESIGN.md section 4 C12",
        "rule": "a case = one byte string / cue text / image header; NON-TRIVIAL when the input parsed (so that accessors ran) or, for cue text and images, was accepted; DISTINCT by hash of the input",
        "quotas": {
            "each accessor called >= 100 times": lambda m: keys(m, "accessor") >= 14 and min(m["hist"]["accessor"].values()) >= 100,
            "image sniffers reached past the signature >= 1000 times": lambda m: sum(v for k, v in m["hist"].get("image_sniff", {}).items() if k != "Unsupported") >= 1000,
            "cue texts accepted and refused": lambda m: h(m, "cue_parse", "accepted") >= 50 and keys(m, "cue_parse") >= 8,
            ">= 10 distinct metadata error variants": lambda m: keys(m, "error_variant") >= 10,
        },
    },
    "C20": {
        "engine": "c20",
        "level": "exploration",
        "profiles": ["release", "checked"],
        "budget": {"quick": 8, "thorough": 100},
        "claim": "A generator emits well-formed cue sheet text (1-99 tracks, optional INDEX 00, up to 100 indices per track, strictly increasing MM:SS:FF positions with minutes far above 99, optional CATALOG quoted/unquoted, ISRC dashed/undashed quoted/unquoted, FLAGS PRE, interleaved REM/TITLE/PERFORMER/FILE lines, indentation, trailing blanks, LF/CRLF, missing final newline) together with the layout it intends, for a stream length that is a whole number of CD sectors; positions are converted by the harness's own ((MM*60+SS)*75+FF)*588. Cuesheet::parse must succeed and report exactly the model's track numbers, index numbers, absolute positions (track offset + index offset), flags, ISRCs, catalog, a lead-out at the stream length and track ranges from INDEX 01 to the next INDEX 01; display() -> parse() must reproduce the track/index layout; the block must survive write_blocks/read. Token separators inside a command are single spaces (documented exclusion).",
        "note": "model and generator are flacref::cue; multi-space token separators are not generated (the statement says spacing accepted by the format; the crate documents a simple parser)",
        "technique": "runtime monitoring: grammar-based generator with an independent layout model as oracle",
        "design_ref": "DESIGN.md section 4 C20",
        "rule": "a case = one generated cue text; NON-TRIVIAL when it was imported and every field compared; DISTINCT by hash of the text",
        "quotas": {
            "all listed features exercised": lambda m: keys(m, "feature") == 6,
            ">= 100000 index positions compared": lambda m: h(m, "indices_checked") >= 100000,
        },
    },
})

PROPS.update({
    "C10": {
        "engine": "c10",
        "level": "exploration",
        "profiles": ["release", "checked"],
        "budget": {"quick": 10, "thorough": 120},
        "claim": "Edit histories of 1-8 steps (set/extend/remove comments, add/remove pictures and application blocks, set/add/remove padding, reorder, no-op, callback error after editing, validation failure) are applied with update_file (in-memory object positioned after 0/3/100 junk bytes, separate rebuilt target) and update(path) to generator-made files with 0, 1 or several padding blocks in first/middle/last position; a sweep sizes the edit so that the growth equals the first padding block's size + delta for every delta in -8..+8, and three cases sit at the 2^24-1 padding limit. After every step a byte-image model is checked: in place => same length, same first-frame offset, identical bytes from there on, junk untouched, blocks read back == the list captured at the end of the callback apart from the first padding's size; rebuilt => original untouched and new file == serialised edited list followed by the identical frame bytes; error => original byte-identical; always: reference decoder and crate decoder return the same PCM as before.",
        "note": "the expected rebuilt metadata is produced with the crate's own write_blocks from the captured list (its correctness is C11's subject)",
        "technique": "runtime monitoring: edit histories checked against a byte-image reference model after every step",
        "design_ref": "DESIGN.md section 4 C10",
        "rule": "a case = one update step (file state, edit); NON-TRIVIAL when the step completed and all model comparisons ran; DISTINCT by hash(file before, edit)",
        "quotas": {
            "in-place, rebuilt and refused updates observed": lambda m: h(m, "update_outcome", "in-place") > 100 and h(m, "update_outcome", "rebuilt") > 100 and any(k.startswith("err:") for k in m["hist"].get("update_outcome", {})),
            "every delta -8..+8 around the exact fit": lambda m: keys(m, "exact_fit_delta") == 17,
            "both update APIs": lambda m: keys(m, "api") == 2,
        },
    },
    "C16": {
        "engine": "c16",
        "level": "exploration",
        "profiles": ["release", "checked"],
        "budget": {"quick": 10, "thorough": 120},
        "claim": "Sequences of 1-20 FlacStreamWriter::write calls with independently varying sample rate (table, kHz, Hz and daHz codings), 1-8 channels, all subset bit depths and lengths 1..65535 are produced; the independent decoder must decode each emitted frame from its own header alone (raw mode, strict rules) to exactly what was written. The concatenation - clean, with sync-free garbage (no FF F8..FB pair, possibly ending in FF) or with sync-rich garbage before/between/after frames - is read back by FlacStreamReader through a BufRead whose buffer boundaries are controlled: whole, 1-byte buffers, capped buffers, random boundaries, a boundary at each frame's sync bytes, and for small streams EVERY single split position. Oracle: returned frames (errors skipped) are a subsequence of the written frames in order; without sync-like garbage all frames are returned. A returned frame not in the model is first checked for a coincidental CRC-valid frame inside the garbage (case discarded).",
        "note": "model = list of written frames; frame boundaries from flacref raw-mode decoding",
        "technique": "runtime monitoring: written-frame list as reference model for the raw stream reader over controlled buffer segmentations",
        "design_ref": "DESIGN.md section 4 C16",
        "rule": "a case = (frame sequence + garbage, buffer segmentation); NON-TRIVIAL when the reader's output was compared with the model; DISTINCT by hash(stream bytes, segmentation)",
        "quotas": {
            "all garbage classes": lambda m: keys(m, "garbage") == 3,
            "all segmentations incl. every-position splits": lambda m: keys(m, "segmentation") >= 6,
            "all four subset sample-rate coding families": lambda m: sum(1 for k in m["hist"].get("rate_code", {}) if k in ("12", "13", "14")) == 3 and keys(m, "rate_code") >= 8,
        },
    },
    "C17": {
        "engine": "c17",
        "level": "exploration",
        "profiles": ["release", "checked"],
        "budget": {"quick": 10, "thorough": 120},
        "claim": "Individual frames - the crate's own output, generator-made valid frames over all grammar alternatives (incl. non-minimal coded numbers and non-zero padding), generator malform knobs with valid checksums and CRC-repaired mutations - are given to the structural parser (Frame::read) and, wrapped as a one-frame file whose STREAMINFO total equals the frame's block size, to the streaming decoder. Oracle: both accept or both reject; each Subframe::decode() yields exactly block-size samples; samples after the harness's own inverse decorrelation equal the streaming decoder's output (and the target PCM for valid frames) whenever the subframe values lie inside their bit depth; Frame::write reproduces the original bytes whenever the original used a minimal-length number, zero padding and a zero reserved bit (as judged by the reference decoder).",
        "note": "accept/reject parity is judged per frame with the stream-level rules neutralised by construction; frames whose values leave the bit depth are compared for parity only",
        "technique": "runtime monitoring: differential oracle between the crate's two frame parsers plus independent inverse decorrelation and byte-level re-serialisation check",
        "design_ref": "DESIGN.md section 4 C17",
        "rule": "a case = one frame; NON-TRIVIAL when both parsers accepted it and samples / bytes were compared; DISTINCT by hash of the frame bytes",
        "quotas": {
            "frames accepted by both and rejected by both": lambda m: h(m, "verdicts", "both-accept") > 1000 and h(m, "verdicts", "both-reject") > 200,
            "all four frame origins": lambda m: keys(m, "frame_origin") == 4,
            "byte-identical re-serialisations observed": lambda m: h(m, "reserialised", "byte-identical") > 1000,
        },
    },
    "C19": {
        "engine": "c19",
        "level": "exploration",
        "profiles": ["release"],
        "budget": {"quick": 10, "thorough": 120},
        "claim": "Adversarial PCM (full-scale white noise, alternating extremes, Rice breakers, wasted-bit noise, anti-correlated stereo, full-scale squares, impulses, overflow ramps) and constant / silent blocks are encoded over the random option space (all depths and channel counts, block 16..65535, fast/exhaustive correlation, LPC none..32, partition order 0..15); frame sizes are read from the independent decoder's frame table. Oracle per frame: bytes <= 24 + 5*channels + ceil((block * channels * bps + [stereo-decorrelated]*block)/8); per block whose channels are all constant: bytes <= 18 + 48*channels. The two allowances are fixed in DESIGN.md and not tuned per run; the evidence reports the worst observed ratio to the bound.",
        "note": "bounds are the ones fixed in DESIGN.md section 4 C19",
        "technique": "runtime monitoring: per-frame size bound checked on the reference decoder's frame table over adversarial workloads",
        "design_ref": "DESIGN.md section 4 C19",
        "rule": "a case = (options, front-end, adversarial PCM recipe); NON-TRIVIAL when the file was produced and every frame measured; DISTINCT by hash of the file",
        "quotas": {
            ">= 1000 frames measured": lambda m: h(m, "frames_measured") >= 1000,
            ">= 100 constant blocks measured": lambda m: h(m, "constant_blocks_measured") >= 100,
        },
    },
})

PROPS.update({
    "C18": {
        "engine": "c18",
        "level": "exploration",
        "profiles": {"quick": ["par"], "thorough": ["par", "tsan"]},
        "pre": [{"profile": "release", "engine": "c18ref"}],
        "budget": {"quick": 14, "thorough": 150},
        "miri": {"thorough": {"engine": "c18", "args": ["--tiny"], "procs": 32, "shards": 16, "features": "par,hooks,noalloc",
                              "pre": [{"profile": "release", "engine": "c18ref"}], "preemption": 0.05}},
        "claim": "A seed-derived corpus (1, 2 and 3-8 channels; exhaustive and fast channel correlation; mid-side on/off; LPC on/off; block sizes 256-4096; all writer front-ends) is first encoded by the harness built WITHOUT the rayon feature, one hash per case. The harness built WITH flac-codec's rayon + verif-hooks features then encodes every case inside rayon pools of 1, 2, 3, 4, 8 and 16 threads, repeatedly, with seeded 0-200 us delays injected at the start of every parallel task, and requires byte-identical output. The hook event log (task kind, begin/end, thread, global order taken under the log's lock) is checked after every encode: frames never overlap, every task begin has its end on the same thread, the number of subframe tasks per frame is the expected one, and the evidence reports how many frames had truly overlapping candidate tasks on different threads and how many distinct interleaving signatures were observed. Thorough adds a ThreadSanitizer build (-Zbuild-std) of the same workload (any report = violation) and 32 Miri processes (data-race detector + randomised scheduler with its own seed per process, preemption rate 5%) encoding a tiny corpus in 2- and 3-thread pools, compared with the serial hashes and checked by the same trace monitor. Schedules are observed and perturbed, not enumerated.",
        "note": "all schedules cannot be enumerated for a work-stealing pool; reach comes from pool sizes x repetitions x injected delays x 16 concurrently running shard processes; the serial reference comes from a separate build of the same source tree",
        "technique": "runtime monitoring: differential check against the serial build under schedule perturbation, trace-specification checker over the hook event log; ThreadSanitizer build and Miri (race detector, seeded schedules) in the thorough tier",
        "design_ref": "DESIGN.md section 4 C18, section 3.4",
        "rule": "a case = (corpus case, pool size, repetition, perturbation seed); NON-TRIVIAL when the parallel bytes were compared with the serial hash; DISTINCT by (case, pool size, repetition, pass)",
        "quotas": {
            "all six pool sizes": lambda m: keys(m, "pool_threads") == 6,
            ">= 20 distinct interleaving signatures": lambda m: keys(m, "signature") >= 20,
            "truly overlapping tasks on >= 10% of multi-task frames": lambda m: h(m, "frames_with_truly_overlapping_tasks") * 10 >= h(m, "frames_with_two_or_more_leaf_tasks") > 0,
        },
        "assumptions": ["the hook log order is the observation order (sequence numbers are taken under the same lock as the append)"],
    },
})


# properties not (yet) claimed: id -> reason
NOT_APPLICABLE = {f"C{n:02d}": "check not built yet (framework under construction; see DESIGN.md section 4 for the planned monitor)" for n in range(1, 21)}
