#!/bin/bash
# usage: lib/wave_par.sh <wave number> <K> [PROP ...]
# Confirms the agent outputs of a wave (/tmp/mut<N>/out/<PROP>/ -> seeded/_incoming<N>/<PROP>/) in
# parallel scratch worktrees, then runs each confirmed-or-not change through the quick check of its
# property in K pipelines, each on its own scratch copy of /verif + worktree of /repo under
# /tmp/par/<k> (so /repo itself is never patched).  Results: .build/confirm<N>/*.result and
# .build/mutant_results<N>.txt (same format as lib/mutant.sh).
w="$1"; K="$2"; shift 2
props="$*"; [ -z "$props" ] && props=$(ls /tmp/mut$w/out)
cd /verif
mkdir -p .build/confirm$w
list=/verif/.build/wave${w}_list_$$.txt; : > $list
for id in $props; do
  src=/tmp/mut$w/out/$id; dst=/verif/seeded/_incoming$w/$id; mkdir -p "$dst"
  cp "$src"/change_?.diff "$src"/demo_?.rs "$src"/change_?.md "$dst"/ 2>/dev/null
  for n in 1 2; do
    [ -f "$dst/change_$n.diff" ] && [ -f "$dst/demo_$n.rs" ] || continue
    echo "$w /verif/seeded/_incoming$w/$id/change_$n.diff $id $n" >> $list
  done
done
# confirmations, 6 at a time
cat $list | xargs -P 6 -L 1 bash -c '/verif/lib/confirm_seeded.sh $(dirname $2) $4 /verif/.build/confirm'$w' >/dev/null 2>&1' _
for k in $(seq 0 $((K-1))); do
  (
    root=/tmp/par/$$-$k
    rm -rf $root; mkdir -p $root
    git -C /repo worktree add -q --detach $root/repo HEAD && cp /repo/Cargo.lock $root/repo/
    rsync -a --exclude .build --exclude .git --exclude replays /verif/ $root/verif/
    sed -i "s#path = \"/repo\"#path = \"$root/repo\"#" $root/verif/harness/Cargo.toml
    sed -i "s#^REPO = \"/repo\"#REPO = \"$root/repo\"#" $root/verif/check
    out=/verif/.build/par_results_w${w}_$$_$k.txt; : > $out
    i=0
    while read -r wave patch id n; do
      if [ $((i % K)) -eq $k ]; then
        cd $root/repo
        if git apply "$patch" 2>/dev/null; then
          cd $root/verif
          res=$(VERIF_EVIDENCE_DIR=$root/ev ./check "$id" quick 2>&1); rc=$?
          cd $root/repo && git checkout -q -- . && git clean -qfd src tests 2>/dev/null
          echo "MUTANT $(basename $(dirname $patch))/$(basename $patch) on $id quick: exit=$rc $(echo "$res" | grep -c '^VIOLATION') violation line(s)" >> $out
          echo "$res" | grep -E "^  \[" | head -3 | cut -c1-220 >> $out
        else
          echo "MUTANT $(basename $(dirname $patch))/$(basename $patch) on $id: DOES-NOT-APPLY" >> $out
        fi
      fi
      i=$((i+1))
    done < $list
    cd /; git -C /repo worktree remove --force $root/repo; rm -rf $root
  ) &
done
wait
cat /verif/.build/par_results_w${w}_$$_*.txt >> /verif/.build/mutant_results$w.txt
for f in /verif/.build/confirm$w/*.result; do echo "CONFIRM $(cut -c1-400 $f)"; done > /verif/.build/wave${w}_confirm.txt
echo "WAVE-PAR-DONE $(grep -c ^MUTANT /verif/.build/mutant_results$w.txt)"
