#!/bin/bash
# usage: lib/wave.sh <wave number> <PROP> ...   -- confirm + run the seeded changes of a later wave
# (agent outputs in /tmp/mut<N>/out/<PROP>/); results appended to .build/wave<N>_results.txt
w="$1"; shift
for id in "$@"; do
  src=/tmp/mut$w/out/$id
  dst=/verif/seeded/_incoming$w/$id
  mkdir -p "$dst" /verif/.build/confirm$w
  cp "$src"/change_?.diff "$src"/demo_?.rs "$src"/change_?.md "$dst"/ 2>/dev/null
  for n in 1 2; do
    [ -f "$dst/change_$n.diff" ] || continue
    /verif/lib/confirm_seeded.sh "$dst" "$n" /verif/.build/confirm$w >/dev/null 2>&1
    echo "CONFIRM $(cat /verif/.build/confirm$w/$id-$n.result | cut -c1-400)" >> /verif/.build/wave${w}_results.txt
    /verif/lib/mutant.sh "$dst/change_$n.diff" "$id" quick >> /verif/.build/wave${w}_results.txt 2>&1
  done
done
echo "WAVE-DONE $*" >> /verif/.build/wave${w}_results.txt
