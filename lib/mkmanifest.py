#!/usr/bin/env python3
"""Regenerates /verif/MANIFEST.json from lib/props.py (run after editing props)."""
import json
import os
import subprocess
import sys

ROOT = os.path.dirname(os.path.dirname(os.path.abspath(__file__)))
sys.path.insert(0, os.path.join(ROOT, "lib"))
from props import PROPS, NOT_APPLICABLE  # noqa: E402

hook_commits = subprocess.run(["git", "-C", "/repo", "log", "--format=%H", "--grep", "^verif-hooks:"],
                              capture_output=True, text=True).stdout.split()

checks = []
for pid, s in PROPS.items():
    checks.append({
        "property_id": pid,
        "quick_cmd": f"./check {pid} quick",
        "thorough_cmd": f"./check {pid} thorough",
        "evidence_file": f"evidence/{pid}.json",
        "replay_cmd_template": "./check replay {path}",
        "engine": s["engine"],
        "level_claimed": {"category": s["level"], "text": s["claim"], "design_ref": s.get("design_ref", "DESIGN.md section 4")},
        "level_note": s["note"],
        "technique": s["technique"],
    })

m = {
    "version": 1,
    "setup_cmd": "./check setup",
    "hooks": {
        "guard": "cargo feature `verif-hooks` of flac-codec (off by default)",
        "enable": "the C18 variant builds the harness with `--features par,hooks`, which turns on flac-codec's `rayon` and `verif-hooks` features; every other check builds flac-codec with default features (hooks off)",
        "baseline_off_cmd": "cd /repo && cargo test --workspace --no-fail-fast --offline",
        "source_commits": hook_commits,
        "add_only": True,
    },
    "engines": [
        {"name": "flacref", "path": "oracle/", "serves_properties": sorted(PROPS), "kind_free_text": "independent RFC 9639 reference decoder/validator, structure-aware stream generator with malform knobs, PCM generators, MD5/CRC (no dependency on flac-codec)"},
        {"name": "flacmon", "path": "harness/", "serves_properties": sorted(PROPS), "kind_free_text": "workload drivers + runtime monitors (panic/CPU/allocation monitors, I/O boundary recorders and fault injectors, sequential reference models) run as sharded processes against the crate built from /repo's working tree"},
        {"name": "check", "path": "check", "serves_properties": sorted(PROPS), "kind_free_text": "orchestrator: builds variants (release, checked = overflow checks + debug assertions, par, asan, tsan), runs shards, in the thorough tier also a coverage-guided stage (libFuzzer targets in harness/fuzz calling the same monitors; artifacts and evolved corpus replayed through release/checked) and a Miri stage (tiny workloads, one scheduler seed per process), merges observations, applies known_findings.json, writes evidence, prints the verdict"},
    ],
    "checks": checks,
    "notes": "Verdicts are three-valued: exit 0 held on what was observed, exit 1 + VIOLATION line, exit 2 + INCONCLUSIVE line (never a VIOLATION) for build/harness failures or unmet observation quotas. VERIF_SEED seeds every random choice. See DESIGN.md.",
    "not_applicable": [{"property_id": k, "reason": v} for k, v in NOT_APPLICABLE.items() if k not in PROPS],
}
with open(os.path.join(ROOT, "MANIFEST.json"), "w") as f:
    json.dump(m, f, indent=1)
    f.write("\n")
print("MANIFEST.json written:", len(checks), "checks,", len(m["not_applicable"]), "not applicable")
