#!/bin/bash
# usage: lib/wave2.sh <PROP> ...   -- confirm + run the second-wave seeded changes of the given properties
# (agent outputs in /tmp/mut2/out/<PROP>/); results appended to .build/wave2_results.txt
for id in "$@"; do
  src=/tmp/mut2/out/$id
  dst=/verif/seeded/_incoming2/$id
  mkdir -p "$dst" /verif/.build/confirm2
  cp "$src"/change_?.diff "$src"/demo_?.rs "$src"/change_?.md "$dst"/ 2>/dev/null
  for n in 1 2; do
    [ -f "$dst/change_$n.diff" ] || continue
    /verif/lib/confirm_seeded.sh "$dst" "$n" /verif/.build/confirm2 >/dev/null 2>&1
    echo "CONFIRM $(cat /verif/.build/confirm2/$id-$n.result | cut -c1-400)" >> /verif/.build/wave2_results.txt
    /verif/lib/mutant.sh "$dst/change_$n.diff" "$id" quick >> /verif/.build/wave2_results.txt 2>&1
  done
done
echo "WAVE2-DONE $*" >> /verif/.build/wave2_results.txt
