#!/bin/bash
# usage: lib/par_rerun.sh <K>
# Re-runs every seeded change through the quick check of its property in K parallel pipelines.
# Each pipeline works on its own scratch copy of /verif (sources only) and its own git worktree of
# /repo under /tmp/par/<k> (so /repo itself stays untouched and can be used at the same time);
# the copies are removed at the end.  Results: .build/mutant_results{,2,3,4,5}.txt as with
# lib/rerun_seeded.sh (which does the same sequentially on /repo itself).
K="${1:-3}"
cd /verif
list=/verif/.build/par_list.txt
: > $list
for d in seeded/_incoming/C??; do id=$(basename $d); for n in 1 2; do [ -f $d/change_$n.diff ] && echo "1 /verif/$d/change_$n.diff $id" >> $list; done; done
echo "1 /verif/seeded/_own/C05a/change_1.diff C05" >> $list
echo "1 /verif/seeded/_own/R952/change_1.diff C01" >> $list
for w in 2 3 4 5 6; do for d in seeded/_incoming$w/C??; do id=$(basename $d); for n in 1 2; do [ -f $d/change_$n.diff ] && echo "$w /verif/$d/change_$n.diff $id" >> $list; done; done; done
total=$(wc -l < $list)
for k in $(seq 0 $((K-1))); do
  (
    root=/tmp/par/$k
    rm -rf $root; mkdir -p $root
    git -C /repo worktree add -q --detach $root/repo HEAD && cp /repo/Cargo.lock $root/repo/
    rsync -a --exclude .build --exclude .git --exclude replays /verif/ $root/verif/
    sed -i "s#path = \"/repo\"#path = \"$root/repo\"#" $root/verif/harness/Cargo.toml
    sed -i "s#^REPO = \"/repo\"#REPO = \"$root/repo\"#" $root/verif/check
    out=/verif/.build/par_results_$k.txt; : > $out
    i=0
    while read -r wave patch id; do
      if [ $((i % K)) -eq $k ]; then
        cd $root/repo
        if git apply "$patch" 2>/dev/null; then
          cd $root/verif
          res=$(VERIF_EVIDENCE_DIR=$root/ev ./check "$id" quick 2>&1); rc=$?
          cd $root/repo && git checkout -q -- . && git clean -qfd src tests 2>/dev/null
          echo "WAVE $wave" >> $out
          echo "MUTANT $(basename $(dirname $patch))/$(basename $patch) on $id quick: exit=$rc $(echo "$res" | grep -c '^VIOLATION') violation line(s)" >> $out
          echo "$res" | grep -E "^  \[" | head -3 | cut -c1-220 >> $out
        else
          echo "WAVE $wave" >> $out
          echo "MUTANT $(basename $(dirname $patch))/$(basename $patch) on $id: DOES-NOT-APPLY" >> $out
        fi
      fi
      i=$((i+1))
    done < $list
    cd /; git -C /repo worktree remove --force $root/repo; rm -rf $root
    echo "PIPELINE-DONE" >> $out
  ) &
done
wait
# merge by wave
python3 - <<'PY'
import glob,re
byw={1:[],2:[],3:[],4:[],5:[],6:[]}
for f in sorted(glob.glob('/verif/.build/par_results_*.txt')):
    w=None
    for line in open(f, errors='replace'):
        if line.startswith('WAVE '):
            w=int(line.split()[1]); continue
        if line.startswith('PIPELINE-DONE'): continue
        if w: byw[w].append(line)
names={1:'mutant_results.txt',2:'mutant_results2.txt',3:'mutant_results3.txt',4:'mutant_results4.txt',5:'mutant_results5.txt',6:'mutant_results6.txt'}
for w,lines in byw.items():
    open('/verif/.build/'+names[w],'w').write(''.join(lines))
print({w:sum(1 for l in v if l.startswith('MUTANT')) for w,v in byw.items()})
PY
echo "PAR-RERUN-DONE total=$total"
