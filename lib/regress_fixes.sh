#!/bin/bash
# Reverse-applies every `fix:` commit of /repo (one at a time) to the current working tree and runs
# the check(s) that should notice the defect coming back.  Evidence goes to a scratch directory.
# usage: lib/regress_fixes.sh [outfile]
out="${1:-/verif/.build/regress_fixes.txt}"
: > "$out"
cd /repo || exit 9
if ! git diff --quiet; then echo "/repo has uncommitted changes"; exit 9; fi
while read -r commit props; do
  [ -z "$commit" ] && continue
  if ! git show "$commit" -- src | git apply -R 2>/tmp/regress_apply.err; then
    echo "REGRESS $commit ($props): reverse patch does not apply ($(head -1 /tmp/regress_apply.err))" | tee -a "$out"
    git checkout -q -- .
    continue
  fi
  for p in $props; do
    res=$(cd /verif && VERIF_EVIDENCE_DIR=/verif/.build/evidence-scratch ./check "$p" quick 2>&1)
    rc=$?
    sig=$(echo "$res" | grep -E "^  \[" | head -1 | cut -c1-200)
    echo "REGRESS $commit on $p: exit=$rc :: $sig" | tee -a "$out"
  done
  git checkout -q -- .
done <<'LIST'
952d160 C01 C02
d150b83 C15
cda8b61 C11 C15
8fe2746 C15
3c37866 C04 C05
004d016 C06
0420c7a C06
2a95b5b C07
087dd59 C08
f62a833 C12
4473808 C13
4bbeebd C02
584eb57 C01
4d04b6a C02
f62c8f1 C04
7ff674c C04 C05
d476f9c C04
d5bffd2 C05
31f94a2 C09
2d0e8dc C15
cc8deaf C15
340b3f6 C11
3c619ae C12
23e0f7b C12
0c44b0d C12
9ee8111 C17
7fe31b5 C17
edbff3e C17
9504b66 C17
47dfb07 C14 C05
LIST
echo "REGRESS-DONE" >> "$out"
