#!/bin/bash
# Re-runs every kept seeded change (first wave: seeded/_incoming + seeded/_own, later waves:
# seeded/_incoming2..4) through the quick check of its property; writes .build/mutant_results.txt
# (wave 1) and .build/mutant_results2.txt (wave 2).  Needs exclusive use of /repo's working tree.
cd /verif
: > .build/mutant_results.txt
for d in seeded/_incoming/C??; do id=$(basename $d); for n in 1 2; do [ -f $d/change_$n.diff ] && lib/mutant.sh /verif/$d/change_$n.diff $id quick >> .build/mutant_results.txt 2>&1; done; done
lib/mutant.sh /verif/seeded/_own/C05a/change_1.diff C05 quick >> .build/mutant_results.txt 2>&1
lib/mutant.sh /verif/seeded/_own/R952/change_1.diff C01 quick >> .build/mutant_results.txt 2>&1
: > .build/mutant_results2.txt
for d in seeded/_incoming2/C??; do id=$(basename $d); for n in 1 2; do [ -f $d/change_$n.diff ] && lib/mutant.sh /verif/$d/change_$n.diff $id quick >> .build/mutant_results2.txt 2>&1; done; done
: > .build/mutant_results3.txt
for d in seeded/_incoming3/C??; do id=$(basename $d); for n in 1 2; do [ -f $d/change_$n.diff ] && lib/mutant.sh /verif/$d/change_$n.diff $id quick >> .build/mutant_results3.txt 2>&1; done; done
: > .build/mutant_results4.txt
for d in seeded/_incoming4/C??; do id=$(basename $d); for n in 1 2; do [ -f $d/change_$n.diff ] && lib/mutant.sh /verif/$d/change_$n.diff $id quick >> .build/mutant_results4.txt 2>&1; done; done
echo ALLDONE >> .build/mutant_results4.txt
