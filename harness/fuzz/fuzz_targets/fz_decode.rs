#![no_main]
//! arbitrary bytes -> every decoding entry point under the C04 monitors, plus the C03 parity
//! oracle whenever the independent reference decoder accepts the bytes as a valid stream
use libfuzzer_sys::{fuzz_mutator, fuzz_target, fuzzer_mutate};

fuzz_target!(|data: &[u8]| {
    flacmon::fuzzbridge::decode(data);
});

// checksum-preserving mutations (see fuzzbridge::mutate_decode)
fuzz_mutator!(|data: &mut [u8], size: usize, max_size: usize, seed: u32| {
    flacmon::fuzzbridge::mutate_decode(data, size, max_size, seed, |d, s, m| fuzzer_mutate(d, s, m))
});
