#![no_main]
//! arbitrary bytes -> every decoding entry point under the C04 monitors, plus the C03 parity
//! oracle whenever the independent reference decoder accepts the bytes as a valid stream
use libfuzzer_sys::fuzz_target;

fuzz_target!(|data: &[u8]| {
    flacmon::fuzzbridge::decode(data);
});
