#![no_main]
//! arbitrary bytes -> every metadata entry point under the C12 monitors (+ C11 re-read of whatever is accepted)
use libfuzzer_sys::fuzz_target;

fuzz_target!(|data: &[u8]| {
    flacmon::fuzzbridge::meta(data);
});
