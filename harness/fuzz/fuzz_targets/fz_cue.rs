#![no_main]
//! arbitrary text -> cue sheet import, accessors and serialisation under the C12 monitors
use libfuzzer_sys::fuzz_target;

fuzz_target!(|data: &[u8]| {
    flacmon::fuzzbridge::cue(data);
});
