//! C11 — metadata blocks survive a write/read round trip and report their sizes.
//! C12 — metadata and auxiliary parsers are total on arbitrary input.

use crate::api::err_name;
use crate::json::J;
use crate::mon;
use crate::report::{fnv, hash_str, Report};
use crate::Ctx;
use flac_codec::metadata::{self, *};
use flacref::meta as rm;
use flacref::rng::Rng;
use std::io::Cursor;
use std::num::NonZero;

fn rand_string(rng: &mut Rng, max: usize) -> String {
    let n = rng.usize(0, max);
    let mut s = String::new();
    for _ in 0..n {
        let c = match rng.below(8) {
            0 => char::from_u32(rng.range(0x80, 0x7FF) as u32).unwrap_or('x'),
            1 => char::from_u32(rng.range(0x800, 0xD7FF) as u32).unwrap_or('y'),
            2 => char::from_u32(rng.range(0x10000, 0x10FFFF) as u32).unwrap_or('z'),
            3 => '=',
            4 => '\0',
            _ => (b' ' + rng.below(95) as u8) as char,
        };
        s.push(c);
    }
    s
}

pub fn rand_streaminfo(rng: &mut Rng) -> Streaminfo {
    let bps = *rng.pick(&[1u32, 2, 4, 8, 16, 24, 31, 32]);
    Streaminfo {
        minimum_block_size: *rng.pick(&[0u16, 16, 4096, 65535]),
        maximum_block_size: *rng.pick(&[0u16, 16, 4096, 65535]),
        minimum_frame_size: *rng.pick(&[None, NonZero::new(1), NonZero::new((1 << 24) - 1)]),
        maximum_frame_size: *rng.pick(&[None, NonZero::new(1), NonZero::new((1 << 24) - 1)]),
        sample_rate: *rng.pick(&[0u32, 1, 44100, (1 << 20) - 1]),
        channels: NonZero::new(rng.usize(1, 8) as u8).unwrap(),
        bits_per_sample: bitstream_io::SignedBitCount::<32>::try_from(bps).unwrap(),
        total_samples: *rng.pick(&[None, NonZero::new(1), NonZero::new(123456), NonZero::new((1u64 << 36) - 1)]),
        md5: if rng.chance(1, 2) { None } else { Some(rng.bytes(16).try_into().unwrap()) },
    }
}

fn rand_picture(rng: &mut Rng) -> Picture {
    let types = [
        PictureType::Other,
        PictureType::Png32x32,
        PictureType::GeneralFileIcon,
        PictureType::FrontCover,
        PictureType::BackCover,
        PictureType::LinerNotes,
        PictureType::MediaLabel,
        PictureType::LeadArtist,
        PictureType::Artist,
        PictureType::Conductor,
        PictureType::Band,
        PictureType::Composer,
        PictureType::Lyricist,
        PictureType::RecordingLocation,
        PictureType::DuringRecording,
        PictureType::DuringPerformance,
        PictureType::ScreenCapture,
        PictureType::Fish,
        PictureType::Illustration,
        PictureType::BandLogo,
        PictureType::PublisherLogo,
    ];
    // never two icons of the same kind in one list: callers de-duplicate
    let n = rng.usize(0, 300);
    Picture {
        picture_type: *rng.pick(&types),
        media_type: rand_string(rng, 20),
        description: rand_string(rng, 40),
        width: rng.next() as u32,
        height: rng.next() as u32,
        color_depth: rng.next() as u32,
        colors_used: NonZero::new(if rng.chance(1, 2) { 0 } else { rng.next() as u32 }),
        data: rng.bytes(n),
    }
}

fn rand_seektable(rng: &mut Rng) -> SeekTable {
    let n = rng.usize(0, 30);
    let mut pts = vec![];
    let mut s = 0u64;
    for i in 0..n {
        s += rng.range(if i == 0 { 0 } else { 1 }, 100000) as u64;
        pts.push(SeekPoint::Defined { sample_offset: s, byte_offset: rng.next() >> rng.below(40), frame_samples: rng.next() as u16 });
    }
    for _ in 0..rng.usize(0, 4) {
        pts.push(SeekPoint::Placeholder);
    }
    SeekTable { points: pts.try_into().expect("contiguous by construction") }
}

/// cue sheet text in plain sample offsets (non-CD-DA) or MM:SS:FF (CD-DA)
fn rand_cuesheet(rng: &mut Rng) -> Option<Cuesheet> {
    if rng.chance(1, 2) {
        let style = flacref::cue::TextStyle { crlf: false, indent: true, trailing_blanks: false, final_newline: true, noise_lines: false, quote_catalog: true, quote_isrc: true, dashed_isrc: rng.chance(1, 3) };
        let mt = *rng.pick(&[1usize, 3, 99]);
        let (text, model) = flacref::cue::generate(rng, style, mt, false);
        Cuesheet::parse(model.total_samples, &text).ok()
    } else {
        // non-CD-DA: total not divisible by 588, offsets are plain sample numbers
        let ntracks = *rng.pick(&[1usize, 2, 5, 50, 254]);
        let mut text = String::new();
        if rng.chance(1, 2) {
            let n = rng.usize(0, 128);
            text.push_str(&format!("CATALOG {}\n", (0..n.max(1)).map(|_| (b'0' + rng.below(10) as u8) as char).collect::<String>()));
        }
        let mut pos = 0u64;
        for t in 0..ntracks {
            text.push_str(&format!("TRACK {} AUDIO\n", t + 1));
            let nidx = match rng.below(8) {
                0 => 255,
                1 => 256,
                2 => 100,
                _ => rng.usize(1, 4),
            };
            let first = if nidx == 256 || rng.chance(1, 3) { 0 } else { 1 };
            for k in 0..nidx {
                if !(t == 0 && k == 0) {
                    pos += rng.range(1, 100000) as u64;
                }
                let number = first + k;
                if number > 255 {
                    break;
                }
                text.push_str(&format!("INDEX {:02} {}\n", number, pos));
            }
        }
        pos += rng.range(1, 100000) as u64;
        let total = if pos % 588 == 0 { pos + 1 } else { pos };
        Cuesheet::parse(total, &text).ok()
    }
}

/// CUESHEET blocks assembled by hand through the public constructors (`Vec -> Contiguous`,
/// `IndexVec::try_from`, `LeadOut*::new`), mostly well-formed, sometimes breaking one rule
/// (first track not number 1 / not at offset 0, first index point not at 0, numbers not
/// consecutive, offsets not ascending, lead-out before the last track).  `None` = a constructor
/// refused, which is fine; whatever is constructed and then accepted by the writer must read back.
fn hand_cuesheet(rng: &mut Rng) -> Option<Cuesheet> {
    use flac_codec::metadata::contiguous::Contiguous;
    use flac_codec::metadata::cuesheet::{CDDAOffset, Index, IndexVec, LeadOutCDDA, LeadOutNonCDDA, TrackCDDA, TrackNonCDDA, ISRC};
    let cd = rng.chance(1, 2);
    let ntracks = *rng.pick(&[1usize, 2, 3, 7]);
    let rule = rng.below(10); // 0..=5: one rule broken; else well-formed
    let mut spec: Vec<(u64, u8, Vec<(u64, u8)>)> = vec![];
    let mut pos = 0u64;
    for t in 0..ntracks {
        let first_idx = if rng.chance(1, 2) { 0u8 } else { 1 };
        let nidx = rng.usize(1, 3);
        let mut off = 0u64;
        let mut pts = vec![];
        for k in 0..nidx {
            pts.push((off, first_idx + k as u8));
            off += rng.range(1, 300) as u64;
        }
        spec.push((pos, (t + 1) as u8, pts));
        pos += off + rng.range(1, 3000) as u64;
    }
    let mut lead = pos + rng.range(1, 3000) as u64;
    match rule {
        0 => spec[0].1 = *rng.pick(&[0u8, 2, 5, 99]),
        1 => spec[0].0 = rng.range(1, 50) as u64,
        2 => spec[0].2[0].0 = rng.range(1, 50) as u64,
        3 if ntracks > 1 => spec[ntracks - 1].1 = spec[ntracks - 1].1.wrapping_add(*rng.pick(&[1u8, 2, 200])),
        4 if ntracks > 1 => spec[ntracks - 1].0 = spec[0].0,
        5 => lead = spec[ntracks - 1].0.saturating_sub(1),
        _ => {}
    }
    if cd {
        let sectors = |s: u64| CDDAOffset::try_from(s * 588).ok();
        let tracks = spec
            .iter()
            .map(|(offset, number, points)| {
                let points: Contiguous<100, Index<CDDAOffset>> = points.iter().map(|(o, n)| Some(Index { offset: sectors(*o)?, number: *n })).collect::<Option<Vec<_>>>()?.try_into().ok()?;
                Some(TrackCDDA { offset: sectors(*offset)?, number: (*number).try_into().ok()?, isrc: ISRC::None, non_audio: rng.chance(1, 4), pre_emphasis: rng.chance(1, 4), index_points: IndexVec::try_from(points).ok()? })
            })
            .collect::<Option<Vec<TrackCDDA>>>()?;
        let tracks: Contiguous<99, TrackCDDA> = tracks.try_into().ok()?;
        Some(Cuesheet::CDDA { catalog_number: None, lead_in_samples: 88200, lead_out: LeadOutCDDA::new(tracks.last(), sectors(lead)?).ok()?, tracks })
    } else {
        let tracks = spec
            .iter()
            .map(|(offset, number, points)| {
                let points: Contiguous<256, Index<u64>> = points.iter().map(|(o, n)| Index { offset: *o, number: *n }).collect::<Vec<_>>().try_into().ok()?;
                Some(TrackNonCDDA { offset: *offset, number: (*number).try_into().ok()?, isrc: ISRC::None, non_audio: rng.chance(1, 4), pre_emphasis: rng.chance(1, 4), index_points: IndexVec::try_from(points).ok()? })
            })
            .collect::<Option<Vec<TrackNonCDDA>>>()?;
        let tracks: Contiguous<254, TrackNonCDDA> = tracks.try_into().ok()?;
        Some(Cuesheet::NonCDDA { catalog_number: vec![], lead_out: LeadOutNonCDDA::new(tracks.last(), lead).ok()?, tracks })
    }
}

pub fn rand_blocklist(rng: &mut Rng) -> BlockList {
    let mut bl = BlockList::new(rand_streaminfo(rng));
    let n = rng.usize(0, 7);
    let mut have_png = false;
    let mut have_icon = false;
    for _ in 0..n {
        match rng.below(7) {
            0 => {
                bl.insert(Padding { size: (rng.below(5000) as u32).try_into().unwrap() });
            }
            1 => {
                let k = rng.usize(0, 200);
                bl.insert(Application { id: rng.next() as u32, data: rng.bytes(k) });
            }
            2 => {
                bl.insert(rand_seektable(rng));
            }
            3 => {
                let mut vc = VorbisComment { vendor_string: rand_string(rng, 30), fields: vec![] };
                for _ in 0..rng.usize(0, 6) {
                    vc.fields.push(rand_string(rng, 60));
                }
                bl.insert(vc);
            }
            4 => {
                if let Some(c) = if rng.chance(1, 3) { hand_cuesheet(rng) } else { rand_cuesheet(rng) } {
                    bl.insert(c);
                }
            }
            _ => {
                let p = rand_picture(rng);
                match p.picture_type {
                    PictureType::Png32x32 if have_png => continue,
                    PictureType::GeneralFileIcon if have_icon => continue,
                    PictureType::Png32x32 => have_png = true,
                    PictureType::GeneralFileIcon => have_icon = true,
                    _ => {}
                }
                bl.insert(p);
            }
        }
    }
    bl
}

fn blocks_of(bl: &BlockList) -> Vec<Block> {
    bl.clone().into_iter().collect()
}

fn block_sizes(b: &Block) -> (Option<u32>, Option<u32>) {
    fn s<B: MetadataBlock>(b: &B) -> (Option<u32>, Option<u32>) {
        (b.bytes().map(u32::from), b.total_size().map(u32::from))
    }
    match b {
        Block::Streaminfo(x) => s(x),
        Block::Padding(x) => s(x),
        Block::Application(x) => s(x),
        Block::SeekTable(x) => s(x),
        Block::VorbisComment(x) => s(x),
        Block::Cuesheet(x) => s(x),
        Block::Picture(x) => s(x),
    }
}

/// write -> read -> equal; self-reported sizes == measured sizes
pub fn roundtrip_list(rep: &mut Report, bl: &BlockList, origin: &str) {
    rep.eval();
    let blocks = blocks_of(bl);
    for b in &blocks {
        rep.count("block_type", format!("{}", b.block_type()));
    }
    let replay = || J::obj().set("origin", origin).set("blocks", format!("{:?}", blocks).chars().take(6000).collect::<String>());
    let written = mon::guard(|| {
        let mut buf = vec![];
        metadata::write_blocks(&mut buf, bl.blocks()).map(|()| buf).map_err(|e| crate::api::show(&e))
    });
    let bytes = match written {
        Err(p) => {
            rep.violation("panic", format!("write_blocks:{}", p.signature()), format!("{origin}: write_blocks panicked: {} at {}", p.msg, p.location), replay());
            return;
        }
        Ok(Err(e)) => {
            // the writer may refuse (e.g. oversize); that is an answer, not a violation
            rep.count("write_outcome", format!("refused:{}", err_name(&e)));
            return;
        }
        Ok(Ok(b)) => b,
    };
    rep.count("write_outcome", "ok");
    // the writer takes any iterator of blocks: one without an exact size (a filter, a generator)
    // must produce the same bytes as the list itself
    {
        let filtered = mon::guard(|| {
            let mut buf = vec![];
            metadata::write_blocks(&mut buf, bl.blocks().filter(|_| true)).map(|()| buf).map_err(|e| crate::api::show(&e))
        });
        let generated = mon::guard(|| {
            let mut it = blocks.clone().into_iter();
            let mut buf = vec![];
            metadata::write_blocks(&mut buf, std::iter::from_fn(move || it.next())).map(|()| buf).map_err(|e| crate::api::show(&e))
        });
        for (how, r) in [("filter", filtered), ("from_fn", generated)] {
            match r {
                Err(p) => rep.violation("panic", format!("write_blocks:{}", p.signature()), format!("{origin}: write_blocks over a {how} iterator: {} at {}", p.msg, p.location), replay()),
                Ok(Ok(b)) if b == bytes => rep.count("write_iterator", how),
                Ok(Ok(b)) => rep.violation("roundtrip", format!("write-depends-on-iterator-kind:{how}"), format!("{origin}: write_blocks over a {how} iterator wrote {} bytes that differ from the {} bytes written from the list (first difference at {:?})", b.len(), bytes.len(), b.iter().zip(&bytes).position(|(x, y)| x != y)), replay()),
                Ok(Err(e)) => rep.violation("roundtrip", format!("write-depends-on-iterator-kind:{how}:refused"), format!("{origin}: write_blocks over a {how} iterator refused what it wrote from the list: {e}"), replay()),
            }
        }
    }
    // reader must accept the writer's output and give back equal blocks
    let back = mon::guard(|| metadata::read_blocks(Cursor::new(&bytes)).collect::<Result<Vec<Block>, _>>().map_err(|e| crate::api::show(&e)));
    match back {
        Err(p) => rep.violation("panic", format!("read_blocks:{}", p.signature()), format!("{origin}: {} at {}", p.msg, p.location), replay().set("bytes", J::hex(&bytes[..bytes.len().min(20000)]))),
        Ok(Err(e)) => rep.violation("roundtrip", format!("written-but-unreadable:{}", err_name(&e)), format!("{origin}: write_blocks succeeded but the reader refuses its output: {e}"), replay()),
        Ok(Ok(rb)) => {
            if rb != blocks {
                let which = rb.iter().zip(&blocks).position(|(a, b)| a != b);
                rep.violation(
                    "roundtrip",
                    format!("roundtrip-differs:{}", which.map(|i| format!("{}", blocks[i].block_type())).unwrap_or_else(|| "count".into())),
                    format!("{origin}: blocks read back differ (first differing block {which:?}: wrote {:?} read {:?})", which.map(|i| format!("{:?}", blocks[i]).chars().take(300).collect::<String>()), which.map(|i| format!("{:?}", rb[i]).chars().take(300).collect::<String>())),
                    replay(),
                );
            } else {
                rep.nontrivial(fnv(&bytes));
            }
        }
    }
    // ... also when the source delivers the writer's output in small pieces (short reads inside a
    // block), and through the other reading entry points
    if bytes.len() <= 60_000 {
        let plan = [vec![1usize], vec![1, 2, 3, 5, 7], vec![13, 4096]][(fnv(&bytes) % 3) as usize].clone();
        let chunked = mon::guard(|| metadata::read_blocks(crate::io::Chunked::new(bytes.clone(), plan.clone())).collect::<Result<Vec<Block>, _>>().map_err(|e| crate::api::show(&e)));
        match chunked {
            Err(p) => rep.violation("panic", format!("read_blocks:{}", p.signature()), format!("{origin}: chunked source {plan:?}: {} at {}", p.msg, p.location), replay()),
            Ok(Err(e)) => rep.violation("roundtrip", format!("written-but-unreadable-in-pieces:{}", err_name(&e)), format!("{origin}: the reader refuses the writer's output when the source delivers it in reads of {plan:?} bytes: {e}"), replay()),
            Ok(Ok(rb)) if rb != blocks => rep.violation("roundtrip", "roundtrip-differs-in-pieces", format!("{origin}: blocks read from a source delivering {plan:?}-byte reads differ"), replay()),
            Ok(Ok(_)) => rep.count("reader_source", "chunked"),
        }
        let via_list = mon::guard(|| BlockList::read(crate::io::Chunked::new(bytes.clone(), plan.clone())).map(|l| blocks_of(&l)).map_err(|e| crate::api::show(&e)));
        match via_list {
            Err(p) => rep.violation("panic", format!("BlockList::read:{}", p.signature()), format!("{origin}: {} at {}", p.msg, p.location), replay()),
            Ok(Err(e)) => rep.violation("roundtrip", format!("written-but-unreadable-in-pieces:BlockList:{}", err_name(&e)), format!("{origin}: BlockList::read refuses the writer's output from a source delivering {plan:?}-byte reads: {e}"), replay()),
            Ok(Ok(rb)) if rb != blocks => rep.violation("roundtrip", "roundtrip-differs-in-pieces:BlockList", format!("{origin}: BlockList::read over a chunked source gives different blocks"), replay()),
            Ok(Ok(_)) => {}
        }
    }
    // self-reported sizes vs the independent walker
    match flacref::dec::walk_metadata(&bytes, false) {
        Ok((_, walked, _, end)) => {
            if end != bytes.len() {
                rep.violation("size", "trailing-bytes-after-last-block", format!("{origin}: walker stops at {end} of {}", bytes.len()), replay());
            }
            if walked.len() != blocks.len() {
                rep.violation("size", "block-count", format!("{origin}: {} blocks written, walker sees {}", blocks.len(), walked.len()), replay());
            } else {
                for (b, w) in blocks.iter().zip(&walked) {
                    let (body, total) = block_sizes(b);
                    if body != Some(w.len as u32) || total != Some(w.len as u32 + 4) {
                        rep.violation("size", format!("self-reported-size:{}", b.block_type()), format!("{origin}: {} block reports bytes()={body:?} total_size()={total:?} but {} body bytes were written", b.block_type(), w.len), replay());
                    }
                    rep.count("sizes_checked", format!("{}", b.block_type()));
                }
            }
        }
        Err(e) => rep.violation("roundtrip", format!("walker-rejects-writer-output:{}", e.rule), format!("{origin}: {e}"), replay()),
    }
}

/// bytes the reader accepts can be written again and re-read to an equal list
pub fn reread_accepted(rep: &mut Report, bytes: &[u8], origin: &str) {
    rep.eval();
    let first = mon::guard(|| metadata::read_blocks(Cursor::new(bytes)).collect::<Result<Vec<Block>, _>>().map_err(|e| crate::api::show(&e)));
    let blocks = match first {
        Err(p) => {
            rep.violation("panic", format!("read_blocks:{}", p.signature()), format!("{origin}: {} at {}", p.msg, p.location), J::obj().set("bytes", J::hex(&bytes[..bytes.len().min(20000)])));
            return;
        }
        Ok(Err(e)) => {
            rep.count("reader_outcome", format!("refused:{}", err_name(&e)));
            return;
        }
        Ok(Ok(b)) => b,
    };
    rep.count("reader_outcome", "accepted");
    let replay = || J::obj().set("origin", origin).set("bytes", J::hex(&bytes[..bytes.len().min(20000)]));
    let again = mon::guard(|| {
        let mut buf = vec![];
        metadata::write_blocks(&mut buf, blocks.iter()).map(|()| buf).map_err(|e| crate::api::show(&e))
    });
    match again {
        Err(p) => rep.violation("panic", format!("write_blocks:{}", p.signature()), format!("{origin}: re-writing an accepted list panicked: {} at {}", p.msg, p.location), replay()),
        Ok(Err(e)) => rep.violation("roundtrip", format!("accepted-but-unwritable:{}", err_name(&e)), format!("{origin}: the reader accepted these bytes but the writer refuses the resulting list: {e}"), replay()),
        Ok(Ok(b2)) => match metadata::read_blocks(Cursor::new(&b2)).collect::<Result<Vec<Block>, _>>() {
            Ok(rb) if rb == blocks => rep.nontrivial(fnv(bytes) ^ 0x5555),
            Ok(_) => rep.violation("roundtrip", "reread-differs", format!("{origin}: list changes across read -> write -> read"), replay()),
            Err(e) => rep.violation("roundtrip", format!("rewritten-but-unreadable:{}", err_name(&crate::api::show(&e))), format!("{origin}: {e:?}"), replay()),
        },
    }
}

/// lists that break the single-instance / ordering / size rules must be refused, not panic
fn rule_breaking_lists(rep: &mut Report, rng: &mut Rng) {
    let si = Block::Streaminfo(rand_streaminfo(rng));
    let vc = Block::VorbisComment(VorbisComment::default());
    let st = Block::SeekTable(rand_seektable(rng));
    let mut png = rand_picture(rng);
    png.picture_type = PictureType::Png32x32;
    let mut icon = rand_picture(rng);
    icon.picture_type = PictureType::GeneralFileIcon;
    let big = Block::Application(Application { id: 1, data: vec![0u8; (1 << 24) - 4] });
    let cases: Vec<(&str, Vec<Block>, bool)> = vec![
        ("two streaminfo", vec![si.clone(), si.clone()], false),
        ("streaminfo not first", vec![vc.clone(), si.clone()], false),
        ("no streaminfo", vec![vc.clone()], false),
        ("empty list", vec![], false),
        ("two vorbis comments", vec![si.clone(), vc.clone(), vc.clone()], false),
        ("two seek tables", vec![si.clone(), st.clone(), st.clone()], false),
        ("two png icons", vec![si.clone(), Block::Picture(png.clone()), Block::Picture(png.clone())], false),
        ("two general icons", vec![si.clone(), Block::Picture(icon.clone()), Block::Picture(icon.clone())], false),
        ("png icon + general icon (legal)", vec![si.clone(), Block::Picture(png.clone()), Block::Picture(icon.clone())], true),
        ("general icon + png icon (legal)", vec![si.clone(), Block::Picture(icon.clone()), Block::Picture(png.clone())], true),
        ("application one byte too large", vec![si.clone(), big], false),
        ("application at the 24-bit limit (legal)", vec![si.clone(), Block::Application(Application { id: 1, data: vec![0u8; (1 << 24) - 5] })], true),
        ("padding at the 24-bit limit (legal)", vec![si.clone(), Block::Padding(Padding { size: ((1u32 << 24) - 1).try_into().unwrap() })], true),
    ];
    for (name, list, legal) in cases {
        rep.eval();
        rep.count("rule_case", name);
        let r = mon::guard(|| {
            let mut buf = vec![];
            metadata::write_blocks(&mut buf, list.iter()).map(|()| buf).map_err(|e| crate::api::show(&e))
        });
        match r {
            Err(p) => rep.violation("panic", format!("write_blocks:{}", p.signature()), format!("{name}: {} at {}", p.msg, p.location), J::obj().set("case", name)),
            Ok(Ok(b)) if !legal => rep.violation("rules", format!("rule-breaking-list-accepted:{name}"), format!("write_blocks accepted a list with {name} ({} bytes)", b.len()), J::obj().set("case", name)),
            Ok(Err(e)) if legal => rep.violation("rules", format!("legal-list-refused:{name}"), format!("{name}: {e}"), J::obj().set("case", name)),
            Ok(Ok(b)) => {
                // legal: must read back
                match metadata::read_blocks(Cursor::new(&b)).collect::<Result<Vec<Block>, _>>() {
                    Ok(rb) if rb == list => rep.nontrivial(hash_str(name)),
                    Ok(_) => rep.violation("roundtrip", format!("roundtrip-differs:{name}"), name.to_string(), J::obj().set("case", name)),
                    Err(e) => rep.violation("roundtrip", format!("written-but-unreadable:{name}"), format!("{name}: reader refuses the writer's output: {e:?}"), J::obj().set("case", name)),
                }
            }
            Ok(Err(e)) => {
                rep.count("rule_refusal", err_name(&e));
                rep.nontrivial(hash_str(name));
            }
        }
    }
}

/// a sink that counts instead of storing (a wrongly accepted huge block must not exhaust memory)
struct CountSink(u64);
impl std::io::Write for CountSink {
    fn write(&mut self, b: &[u8]) -> std::io::Result<usize> {
        self.0 += b.len() as u64;
        Ok(b.len())
    }
    fn flush(&mut self) -> std::io::Result<()> {
        Ok(())
    }
}

/// the three fallible `BlockSize` constructors around and beyond the 24-bit limit: a size is
/// accepted iff it fits 24 bits, and a PADDING block of an accepted size is written with exactly
/// that many bytes (its self-reported size) - never a panic, never a different size
fn block_size_constructors(rep: &mut Report) {
    use flac_codec::metadata::BlockSize;
    const MAX: u64 = (1 << 24) - 1;
    let values: [u64; 16] = [0, 1, 255, 65536, MAX - 1, MAX, MAX + 1, MAX + 2, 1 << 25, 1 << 29, (1 << 29) + 3, 1 << 31, (1 << 32) - 1, 1 << 32, 1 << 40, u64::MAX];
    for v in values {
        let mut built: Vec<(&str, Option<BlockSize>)> = vec![];
        built.push(("u64", BlockSize::try_from(v).ok()));
        if let Ok(u) = usize::try_from(v) {
            built.push(("usize", BlockSize::try_from(u).ok()));
        }
        if let Ok(u) = u32::try_from(v) {
            built.push(("u32", BlockSize::try_from(u).ok()));
        }
        for (ctor, b) in built {
            rep.eval();
            rep.count("block_size_ctor", format!("{ctor}:{}", if b.is_some() { "accepted" } else { "refused" }));
            let replay = || J::obj().set("case", "block-size-constructor").set("value", v).set("constructor", ctor);
            match b {
                None if v <= MAX => rep.violation("rules", format!("legal-block-size-refused:{ctor}"), format!("BlockSize::try_from({v}_{ctor}) refused a size that fits 24 bits"), replay()),
                None => {}
                Some(size) => {
                    if v > MAX {
                        rep.violation("rules", format!("oversize-block-size-accepted:{ctor}"), format!("BlockSize::try_from({v}_{ctor}) accepted a size beyond 24 bits (reads back as {})", u32::from(size)), replay());
                    }
                    if v > (1 << 33) {
                        continue;
                    }
                    let list = vec![Block::Streaminfo(rand_streaminfo(&mut Rng::new(7))), Block::Padding(Padding { size })];
                    let r = mon::guard(|| {
                        let mut sink = CountSink(0);
                        metadata::write_blocks(&mut sink, list.iter()).map(|()| sink.0).map_err(|e| crate::api::show(&e))
                    });
                    match r {
                        Err(p) => rep.violation("panic", format!("write_blocks:{}", p.signature()), format!("PADDING of size {v} built through {ctor}: {} at {}", p.msg, p.location), replay()),
                        Ok(Err(e)) if v <= MAX => rep.violation("rules", "legal-padding-refused", format!("PADDING of {v} bytes refused: {e}"), replay()),
                        Ok(Err(_)) => {}
                        Ok(Ok(total)) => {
                            let written = total - 4 - 4 - 34 - 4;
                            if written != v {
                                rep.violation("sizes", "padding-written-size-differs", format!("PADDING built from size {v} ({ctor}) was written with {written} bytes"), replay());
                            } else {
                                rep.nontrivial(hash_str(&format!("bs{v}{ctor}")));
                            }
                        }
                    }
                }
            }
        }
    }
}

/// non-canonical but acceptable encodings built by the independent serialiser
pub fn crafted_section(rng: &mut Rng) -> Vec<u8> {
    let si = flacref::dec::StreamInfo {
        min_block: rng.next() as u16,
        max_block: rng.next() as u16,
        min_frame: rng.below(1 << 24) as u32,
        max_frame: rng.below(1 << 24) as u32,
        rate: rng.below(1 << 20) as u32,
        channels: rng.usize(1, 8) as u8,
        bps: rng.usize(1, 32) as u8,
        total: rng.below(1 << 36),
        md5: if rng.chance(1, 2) { [0; 16] } else { rng.bytes(16).try_into().unwrap() },
    };
    let mut blocks = vec![rm::RawBlock { btype: 0, body: si.to_bytes().to_vec() }];
    for _ in 0..rng.usize(0, 5) {
        let b = match rng.below(7) {
            0 => rm::padding(rng.usize(0, 100)),
            1 => rm::RawBlock { btype: 1, body: rng.rbytes(0, 40) }, // padding with non-zero content
            2 => {
                let n = rng.usize(0, 50);
                rm::application(rng.bytes(4).try_into().unwrap(), &rng.bytes(n))
            }
            3 => {
                // placeholders with non-zero offset / frame samples
                let mut pts = vec![];
                let mut s = 0u64;
                for _ in 0..rng.usize(0, 6) {
                    s += rng.range(1, 50000) as u64;
                    pts.push((s, rng.next(), rng.next() as u16));
                }
                for _ in 0..rng.usize(0, 3) {
                    pts.push((u64::MAX, rng.next(), rng.next() as u16));
                }
                rm::seektable(&pts)
            }
            4 => {
                let fields: Vec<Vec<u8>> = (0..rng.usize(0, 4)).map(|_| rand_string(rng, 30).into_bytes()).collect();
                rm::vorbis_comment(rand_string(rng, 20).as_bytes(), &fields)
            }
            5 => {
                let (nt, cd) = (rng.usize(1, 6), rng.chance(1, 2));
                rm::simple_cuesheet(rng, nt, cd)
            }
            _ => {
                let n = rng.usize(0, 60);
                rm::picture(rng.below(21) as u32, b"image/png", rand_string(rng, 10).as_bytes(), rng.next() as u32, rng.next() as u32, rng.next() as u32, rng.next() as u32, &rng.bytes(n))
            }
        };
        blocks.push(b);
    }
    rm::serialize_section(&blocks)
}

pub fn run_c11(ctx: &Ctx, rep: &mut Report) {
    if ctx.replay.is_some() {
        let text = std::fs::read_to_string(ctx.replay.as_ref().unwrap()).expect("replay");
        let j = crate::json::parse(&text).expect("json");
        let r = j.get("replay").unwrap_or(&j);
        if let Some(b) = r.get("bytes").and_then(|x| x.unhex()) {
            reread_accepted(rep, &b, "replay");
        }
        eprintln!("{}", j.get("detail").and_then(|d| d.as_str()).unwrap_or(""));
        for v in &rep.violations {
            eprintln!("VIOLATION-DETAIL {} {}: {}", v.kind, v.sig, v.detail);
        }
        return;
    }
    let mut rng = ctx.rng(0xC11);
    if ctx.shard == 0 {
        rule_breaking_lists(rep, &mut rng);
    }
    if ctx.shard == 1 % ctx.nshards {
        rep.case_begin("block size constructors");
        block_size_constructors(rep);
    }
    let mut i = 0u64;
    while i < 300 || ctx.time_left() {
        i += 1;
        rep.case_begin(&format!("c11 case {i}"));
        if i % 3 == 0 {
            let b = crafted_section(&mut rng);
            reread_accepted(rep, &b, "independently serialised section");
        } else {
            let bl = rand_blocklist(&mut rng);
            roundtrip_list(rep, &bl, "random block list");
        }
        if i % 50 == 0 {
            rule_breaking_lists(rep, &mut rng);
        }
    }
    rep.sample(|| J::obj().set("note", "cases are random block lists built through the public constructors / fields and independently serialised sections"));
}

// ------------------------------------------------------------------ C12 ----

fn exercise_accessors(rep: &mut Report, bl: &BlockList, origin: &str, bytes: &[u8]) {
    let replay = || J::obj().set("origin", origin).set("bytes", J::hex(&bytes[..bytes.len().min(20000)]));
    macro_rules! acc {
        ($name:expr, $e:expr) => {{
            rep.count("accessor", $name);
            let obs = mon::observe(|| {
                let _ = $e;
            });
            if let Err(p) = obs.result {
                rep.violation("panic", format!("accessor:{}:{}", $name, p.signature()), format!("{origin}: {}() panicked: {} at {}", $name, p.msg, p.location), replay());
            }
            if obs.cpu_us > mon::cpu_budget_us(bytes.len()) || obs.peak_alloc > mon::alloc_bound(bytes.len()) {
                rep.violation("cost", format!("accessor-cost:{}", $name), format!("{origin}: {}() used {} us / {} bytes", $name, obs.cpu_us, obs.peak_alloc), replay());
            }
        }};
    }
    acc!("duration", bl.duration());
    acc!("decoded_len", bl.decoded_len());
    acc!("channel_mask", bl.channel_mask().channels().count());
    acc!("total_samples", bl.total_samples());
    acc!("md5", bl.md5().map(|m| m[0]));
    acc!("streaminfo.duration", bl.streaminfo().duration());
    for c in bl.get_all::<Cuesheet>() {
        rep.count("parsed_cuesheets", if c.is_cdda() { "cdda" } else { "non-cdda" });
        acc!("cuesheet.track_sample_ranges", c.track_sample_ranges().count());
        acc!("cuesheet.track_byte_ranges", c.track_byte_ranges(2, 16).count());
        acc!("cuesheet.track_byte_ranges(8ch,32bit)", c.track_byte_ranges(8, 32).count());
        acc!("cuesheet.tracks", c.tracks().map(|t| t.index_points.len()).sum::<usize>());
        acc!("cuesheet.display", c.display("x.flac").to_string().len());
        acc!("cuesheet.catalog_number", c.catalog_number().to_string().len());
        acc!("cuesheet.track_count", c.track_count());
        acc!("cuesheet.lead_in_samples", c.lead_in_samples());
    }
    for v in bl.get_all::<VorbisComment>() {
        acc!("vorbis.get", v.get("TITLE").map(|s| s.len()));
        acc!("vorbis.all", v.all("artist").count());
    }
}

pub fn drive_metadata_bytes(rep: &mut Report, bytes: &[u8], origin: &str, class: &str) {
    rep.case_begin_sized(&format!("{class}: {origin} len {} fnv {:016x}", bytes.len(), fnv(bytes)), bytes.len());
    rep.eval();
    rep.count("input_class", class);
    let n = bytes.len();
    let replay = || J::obj().set("class", class).set("origin", origin).set("bytes", J::hex(&bytes[..n.min(30000)])).set("len", n);
    let mut parsed: Option<BlockList> = None;
    let mut check = |rep: &mut Report, name: &str, obs: mon::Observed<Result<(), String>>| {
        rep.observe_cost(obs.cpu_us, obs.peak_alloc);
        rep.count("entry_point", name);
        if obs.cpu_us > mon::cpu_budget_us(n) {
            rep.violation("cpu", format!("cpu:{name}"), format!("{origin}: {name} used {} us on {n} bytes", obs.cpu_us), replay());
        }
        if obs.peak_alloc > mon::alloc_bound(n) {
            rep.violation("alloc", format!("alloc:{name}"), format!("{origin}: {name} peak allocation {} on {n} input bytes (bound {})", obs.peak_alloc, mon::alloc_bound(n)), replay());
        }
        match obs.result {
            Err(p) => rep.violation("panic", p.signature(), format!("{origin}: {name}: {} at {}", p.msg, p.location), replay()),
            Ok(Err(e)) => rep.count("error_variant", err_name(&e)),
            Ok(Ok(())) => rep.count("accepted", name),
        }
    };
    let obs = mon::observe(|| BlockList::read(Cursor::new(bytes)).map_err(|e| crate::api::show(&e)));
    let (res, obs2) = match obs.result {
        Ok(Ok(bl)) => (Some(bl), mon::Observed { result: Ok(Ok(())), cpu_us: obs.cpu_us, peak_alloc: obs.peak_alloc, max_single_alloc: obs.max_single_alloc }),
        Ok(Err(e)) => (None, mon::Observed { result: Ok(Err(e)), cpu_us: obs.cpu_us, peak_alloc: obs.peak_alloc, max_single_alloc: obs.max_single_alloc }),
        Err(p) => (None, mon::Observed { result: Err(p), cpu_us: obs.cpu_us, peak_alloc: obs.peak_alloc, max_single_alloc: obs.max_single_alloc }),
    };
    if let Some(bl) = res {
        parsed = Some(bl);
    }
    check(rep, "BlockList::read", obs2);
    let obs = mon::observe(|| {
        for b in metadata::read_blocks(Cursor::new(bytes)) {
            b.map_err(|e| crate::api::show(&e))?;
        }
        Ok(())
    });
    check(rep, "read_blocks", obs);
    let obs = mon::observe(|| metadata::read_info(Cursor::new(bytes)).map(|_| ()).map_err(|e| crate::api::show(&e)));
    check(rep, "read_info", obs);
    let obs = mon::observe(|| metadata::read_block::<_, VorbisComment>(Cursor::new(bytes)).map(|_| ()).map_err(|e| crate::api::show(&e)));
    check(rep, "read_block<VorbisComment>", obs);
    let obs = mon::observe(|| metadata::read_block::<_, Picture>(Cursor::new(bytes)).map(|_| ()).map_err(|e| crate::api::show(&e)));
    check(rep, "read_block<Picture>", obs);
    let obs = mon::observe(|| metadata::read_block::<_, Cuesheet>(Cursor::new(bytes)).map(|_| ()).map_err(|e| crate::api::show(&e)));
    check(rep, "read_block<Cuesheet>", obs);
    let obs = mon::observe(|| metadata::read_block::<_, SeekTable>(Cursor::new(bytes)).map(|_| ()).map_err(|e| crate::api::show(&e)));
    check(rep, "read_block<SeekTable>", obs);
    if let Some(bl) = &parsed {
        rep.count("parsed_lists", class);
        rep.nontrivial(fnv(bytes));
        exercise_accessors(rep, bl, origin, bytes);
    }
    rep.sample(|| J::obj().set("class", class).set("origin", origin).set("len", n).set("head", J::hex(&bytes[..n.min(48)])));
}

/// metadata sections with one field pushed to an extreme
pub fn extreme_section(rng: &mut Rng) -> (Vec<u8>, String) {
    let si = flacref::dec::StreamInfo {
        min_block: 16,
        max_block: 16,
        min_frame: 0,
        max_frame: 0,
        rate: *rng.pick(&[0u32, 1, 44100, (1 << 20) - 1]),
        channels: rng.usize(1, 8) as u8,
        bps: rng.usize(1, 32) as u8,
        total: *rng.pick(&[0u64, 1, 1000, (1 << 36) - 1]),
        md5: [0; 16],
    };
    let sib = rm::RawBlock { btype: 0, body: si.to_bytes().to_vec() };
    let big = [0u32, 1, 0x7FFF_FFFF, 0x8000_0000, 0xFFFF_FFFF, 0x00FF_FFFF, 0x0100_0000];
    let (extra, what): (rm::RawBlock, String) = match rng.below(14) {
        12 | 13 => {
            // well-formed comment block whose channel-mask tag carries a hostile value: the block
            // parses, the accessor (`channel_mask()` of every reader and of the block list) must cope
            let key = *rng.pick(&["WAVEFORMATEXTENSIBLE_CHANNEL_MASK", "waveformatextensible_channel_mask", "WaveFormatExtensible_Channel_Mask"]);
            let vals: [&[u8]; 22] = [
                b"", b"0", b"x", b"0x", b"0X", b"0X3", b"0x3", b" 0x3 ", b"0xZZ", b"3", b"0x00000000000000000000000000000000003", b"0xFFFFFFFFFFFFFFFFFFFF",
                "0\u{e9}".as_bytes(), "1\u{20ac}".as_bytes(), "\u{1f3b5}".as_bytes(), "\u{e9}x3".as_bytes(), "0x\u{e9}".as_bytes(), b"0x-3", b"0x+3", b"-0x3", b"0x 3", b"=0x3",
            ];
            let v = *rng.pick(&vals);
            let mut field = key.as_bytes().to_vec();
            field.push(b'=');
            field.extend_from_slice(v);
            let mut fields = vec![b"TITLE=t".to_vec(), field];
            if rng.chance(1, 3) {
                fields.push(format!("{key}=0x4").into_bytes());
            }
            (rm::vorbis_comment(b"v", &fields), format!("channel mask tag value {:?}", String::from_utf8_lossy(v)))
        }
        0 => {
            // vorbis comment: vendor length lies
            let mut b = rm::vorbis_comment(b"vendor", &[b"A=b".to_vec()]);
            let v = *rng.pick(&big);
            b.body[0..4].copy_from_slice(&v.to_le_bytes());
            (b, format!("vorbis vendor length {v:#x}"))
        }
        1 => {
            let mut b = rm::vorbis_comment(b"v", &[b"A=b".to_vec(), b"C=d".to_vec()]);
            let v = *rng.pick(&big);
            b.body[5..9].copy_from_slice(&v.to_le_bytes());
            (b, format!("vorbis field count {v:#x}"))
        }
        2 => {
            let mut b = rm::vorbis_comment(b"v", &[b"A=b".to_vec()]);
            let v = *rng.pick(&big);
            b.body[9..13].copy_from_slice(&v.to_le_bytes());
            (b, format!("vorbis field length {v:#x}"))
        }
        3 => {
            let mut b = rm::picture(3, b"image/png", b"d", 1, 1, 24, 0, b"data");
            let v = *rng.pick(&big);
            let at = *rng.pick(&[4usize, 17]);
            b.body[at..at + 4].copy_from_slice(&v.to_be_bytes());
            (b, format!("picture string length {v:#x} at {at}"))
        }
        4 => {
            let mut b = rm::picture(3, b"image/png", b"d", 1, 1, 24, 0, b"data");
            let v = *rng.pick(&big);
            let at = b.body.len() - 8;
            b.body[at..at + 4].copy_from_slice(&v.to_be_bytes());
            (b, format!("picture data length {v:#x}"))
        }
        5 => (rm::picture(*rng.pick(&[20u32, 21, 255, u32::MAX]), b"\xff\xfe", b"\xc0", 0, 0, 0, 0, b""), "picture type / invalid utf-8".into()),
        6 => {
            // seek table shapes
            let pts: Vec<(u64, u64, u16)> = match rng.below(4) {
                0 => vec![(5, 0, 1), (5, 0, 1)],
                1 => vec![(u64::MAX, 0, 0), (3, 0, 0)],
                2 => vec![(u64::MAX - 1, u64::MAX, u16::MAX)],
                _ => (0..rng.usize(0, 40)).map(|i| (i as u64 * 7, rng.next(), 3)).collect(),
            };
            let mut b = rm::seektable(&pts);
            if rng.chance(1, 4) {
                b.body.push(0);
            }
            (b, "seektable shape".into())
        }
        7..=9 => {
            // cue sheets with numbers at their extremes
            let is_cd = rng.chance(1, 2);
            let ntracks = *rng.pick(&[0usize, 1, 2, 99, 100, 101, 254, 255]);
            let mut tracks = vec![];
            let unit = if is_cd { 588 } else { 1 };
            let mut pos = 0u64;
            for t in 0..ntracks {
                let nidx = *rng.pick(&[0usize, 1, 2, 100, 101, 255]);
                let first = *rng.pick(&[0u8, 1, 1, 1, 2, 254, 255]);
                let mut indices = vec![];
                let mut off = 0u64;
                for k in 0..nidx {
                    indices.push(rm::CueIndex { offset: off, number: first.wrapping_add(k as u8) });
                    off = match rng.below(12) {
                        0 => u64::MAX - (u64::MAX % unit),
                        1 => off, // not increasing
                        _ => off.saturating_add(unit * rng.range(1, 1000) as u64),
                    };
                }
                let number = match rng.below(10) {
                    0 => 0,
                    1 => 255,
                    2 => 170,
                    _ => (t + 1) as u8,
                };
                let toff = match rng.below(12) {
                    0 => u64::MAX - (u64::MAX % unit),
                    1 => (u64::MAX / 2) - ((u64::MAX / 2) % unit),
                    _ => pos,
                };
                tracks.push(rm::CueTrack { offset: toff, number, isrc: if rng.chance(1, 4) { *b"AB1231234567" } else if rng.chance(1, 6) { rng.bytes(12).try_into().unwrap() } else { [0; 12] }, non_audio: rng.chance(1, 4), pre_emphasis: rng.chance(1, 4), indices });
                pos = pos.saturating_add(unit * rng.range(1, 100000) as u64);
            }
            tracks.push(rm::CueTrack { offset: if rng.chance(1, 6) { 0 } else { pos }, number: *rng.pick(&[170u8, 255, 255, 170, 1]), isrc: [0; 12], non_audio: false, pre_emphasis: false, indices: if rng.chance(1, 8) { vec![rm::CueIndex { offset: 0, number: 1 }] } else { vec![] } });
            let catalog: Vec<u8> = match rng.below(4) {
                0 => b"1234567890123".to_vec(),
                1 => vec![b'9'; 128],
                2 => b"12ab".to_vec(),
                _ => vec![],
            };
            (rm::cuesheet(&catalog, rng.next() >> rng.below(64), is_cd, &tracks), format!("cuesheet cd={is_cd} tracks={ntracks}"))
        }
        10 if rng.chance(2, 3) => {
            // structurally VALID cue sheets (ascending tracks and index points, proper lead-out) whose
            // numbers sit at the extremes, so that they parse and reach the accessors / the renderer:
            // track offset + index offset beyond u64::MAX, lead-out at u64::MAX, 99 / 254 tracks
            let is_cd = rng.chance(1, 2);
            let unit: u64 = if is_cd { 588 } else { 1 };
            let align = |v: u64| v - v % unit;
            let ntracks = *rng.pick(&[1usize, 2, 3, 5]);
            let mut offs: Vec<u64> = (0..ntracks)
                .map(|_| match rng.below(5) {
                    0 => align(u64::MAX - rng.below(10_000_000)),
                    1 => align(u64::MAX / 2 + rng.below(1 << 40)),
                    2 => align(1 << 40),
                    _ => align(rng.below(1 << 33)),
                })
                .collect();
            offs.sort_unstable();
            offs.dedup();
            offs[0] = 0;
            let mut tracks = vec![];
            for (t, toff) in offs.iter().enumerate() {
                let first = if rng.chance(1, 2) { 0u8 } else { 1 };
                let nidx = rng.usize(1, 4);
                let mut off = 0u64;
                let mut indices = vec![];
                for k in 0..nidx {
                    indices.push(rm::CueIndex { offset: off, number: first + k as u8 });
                    off = off.saturating_add(align(match rng.below(4) {
                        0 => u64::MAX / 2,
                        1 => 20_000_000,
                        _ => 588 * rng.range(1, 5000) as u64,
                    }));
                    off = align(off);
                }
                tracks.push(rm::CueTrack { offset: *toff, number: (t + 1) as u8, isrc: [0; 12], non_audio: false, pre_emphasis: rng.chance(1, 4), indices });
            }
            let lead = align(match rng.below(3) {
                0 => u64::MAX,
                1 => offs.last().copied().unwrap_or(0).saturating_add(588 * 1000),
                _ => u64::MAX - 588 * 3,
            });
            tracks.push(rm::CueTrack { offset: lead, number: if is_cd { 170 } else { 255 }, isrc: [0; 12], non_audio: false, pre_emphasis: false, indices: vec![] });
            (rm::cuesheet(b"", if is_cd { 88200 } else { 0 }, is_cd, &tracks), format!("valid-extreme cuesheet cd={is_cd} tracks={}", offs.len()))
        }
        10 => (rm::RawBlock { btype: *rng.pick(&[7u8, 50, 126, 127]), body: rng.rbytes(0, 30) }, "reserved / invalid block type".into()),
        _ => (rm::application([1, 2, 3, 4], &rng.rbytes(0, 3))
            .clone(), "tiny application".into()),
    };
    let mut blocks = vec![sib];
    if rng.chance(1, 3) {
        blocks.push(rm::padding(rng.usize(0, 10)));
    }
    blocks.push(extra);
    let mut bytes = rm::serialize_section(&blocks);
    // sometimes lie in the block header length or cut the section
    match rng.below(6) {
        0 => {
            let cut = rng.usize(0, bytes.len());
            bytes.truncate(cut);
        }
        1 => {
            // last block header: declared length bigger / smaller than the body
            let last_off = 4 + blocks[..blocks.len() - 1].iter().map(|b| 4 + b.body.len()).sum::<usize>();
            let last_len = blocks.last().unwrap().body.len() as u32;
            let v = *rng.pick(&[0u32, 1, last_len + 1, last_len + 1000, 0xFFFFFF, last_len.saturating_sub(1)]);
            bytes[last_off + 1..last_off + 4].copy_from_slice(&v.to_be_bytes()[1..]);
        }
        _ => {}
    }
    (bytes, what)
}

/// a well-formed cue sheet with exactly one element perturbed (earlier index, extreme number, ...)
pub fn nearly_valid_cue_text(rng: &mut Rng) -> (u64, String) {
    let cd = rng.chance(2, 3);
    let ntracks = rng.usize(1, 6);
    let unit: u64 = if cd { 588 } else { 1 };
    let show = |v: u64| -> String {
        if cd {
            let f = v / 588;
            format!("{:02}:{:02}:{:02}", f / 75 / 60, (f / 75) % 60, f % 75)
        } else {
            format!("{v}")
        }
    };
    let mut lines: Vec<String> = vec![];
    let mut pos = 0u64;
    let mut positions: Vec<usize> = vec![]; // indices of INDEX lines
    for t in 0..ntracks {
        lines.push(format!("TRACK {:02} AUDIO", t + 1));
        let first = if rng.chance(1, 3) { 0 } else { 1 };
        for k in 0..rng.usize(1, 4) {
            if !(t == 0 && k == 0) {
                pos += unit * rng.range(1, 5000) as u64;
            }
            positions.push(lines.len());
            lines.push(format!("INDEX {:02} {}", first + k, show(pos)));
        }
    }
    pos += unit * rng.range(1, 5000) as u64;
    let mut total = pos;
    // one perturbation
    let li = *rng.pick(&positions);
    match rng.below(8) {
        0 => {
            // an index earlier than the track's first index
            let parts: Vec<&str> = lines[li].split(' ').collect();
            lines[li] = format!("INDEX {} {}", parts[1], show(0));
        }
        1 => {
            let parts: Vec<&str> = lines[li].split(' ').collect();
            lines[li] = format!("INDEX {} {}", parts[1], show(u64::MAX - u64::MAX % unit));
        }
        2 => {
            let parts: Vec<String> = lines[li].split(' ').map(|x| x.to_string()).collect();
            lines[li] = format!("INDEX {} {}", *rng.pick(&["255", "256", "0", "99", "100"]), parts[2]);
        }
        3 => total = *rng.pick(&[0u64, unit, pos / 2 - (pos / 2) % unit]),
        4 => lines.insert(li, "ISRC AB1231234567".into()),
        5 => lines.swap(li, positions[0]),
        6 => lines.insert(0, format!("CATALOG {}", "1".repeat(rng.usize(0, 130)))),
        _ => {}
    }
    (total, lines.join("\n") + "\n")
}

/// cue sheet text with odd / extreme numbers, orders and totals
pub fn hostile_cue_text(rng: &mut Rng) -> (u64, String) {
    if rng.chance(2, 3) {
        return nearly_valid_cue_text(rng);
    }
    let cd = rng.chance(2, 3);
    let mut text = String::new();
    let num = |rng: &mut Rng| -> String {
        match rng.below(10) {
            0 => "0".into(),
            1 => "255".into(),
            2 => "256".into(),
            3 => "-1".into(),
            4 => "99999999999999999999".into(),
            5 => "".into(),
            6 => "1e3".into(),
            _ => format!("{}", rng.below(120)),
        }
    };
    let time = |rng: &mut Rng, cd: bool| -> String {
        if cd {
            match rng.below(10) {
                0 => "00:00:00".into(),
                1 => "99999999999999:59:74".into(),
                2 => "18446744073709551615:00:00".into(),
                3 => "00:60:00".into(),
                4 => "00:00:75".into(),
                5 => "1:2".into(),
                6 => "a:b:c".into(),
                7 => format!("{}:{:02}:{:02}", rng.below(400000000000000), rng.below(60), rng.below(75)),
                _ => format!("{:02}:{:02}:{:02}", rng.below(100), rng.below(60), rng.below(75)),
            }
        } else {
            match rng.below(6) {
                0 => "0".into(),
                1 => "18446744073709551615".into(),
                2 => "-5".into(),
                _ => format!("{}", rng.next() >> rng.below(64)),
            }
        }
    };
    for _ in 0..rng.usize(0, 3) {
        match rng.below(4) {
            0 => text.push_str(&format!("CATALOG {}\n", *rng.pick(&["", "\"", "\"\"", "1234567890123", "\"1234567890123\"", "123", "x"]))),
            1 => text.push_str("REM whatever\n"),
            2 => text.push_str("FILE \"a\" WAVE\n"),
            _ => {}
        }
    }
    for t in 0..rng.usize(0, 5) {
        match rng.below(8) {
            0 => text.push_str("TRACK\n"),
            1 => text.push_str(&format!("TRACK {} AUDIO\n", num(rng))),
            _ => text.push_str(&format!("TRACK {:02} AUDIO\n", t + 1)),
        }
        for _ in 0..rng.usize(0, 2) {
            match rng.below(6) {
                0 => text.push_str(&format!("ISRC {}\n", *rng.pick(&["", "\"", "ABCDE1234567", "AB-CDE-12-34567", "\"AB1231234567\"", "------------", "ÄB1231234567"]))),
                1 => text.push_str("FLAGS PRE\n"),
                2 => text.push_str("FLAGS DCP\n"),
                _ => {}
            }
        }
        let mut base: Vec<String> = (0..rng.usize(0, 4)).map(|_| time(rng, cd)).collect();
        if rng.chance(1, 2) {
            base.sort();
        }
        for (k, b) in base.iter().enumerate() {
            let n = if rng.chance(1, 6) { num(rng) } else { format!("{:02}", k + rng.usize(0, 1)) };
            text.push_str(&format!("INDEX {n} {b}\n"));
        }
    }
    let total = match rng.below(6) {
        0 => 0,
        1 => u64::MAX,
        2 => 588,
        3 => u64::MAX - (u64::MAX % 588),
        _ => {
            let t = rng.next() >> rng.below(64);
            if cd {
                t - t % 588
            } else {
                t | 1
            }
        }
    };
    (total, text)
}

/// cue sheet text import, then every accessor and serialisation of the imported sheet
pub fn drive_cue_text(rep: &mut Report, total: u64, text: &str) {
    rep.eval();
    rep.case_begin(&format!("cue text total {total}: {}", text.replace('\n', "|")));
    rep.count("input_class", "cue-text");
    let obs = mon::observe(|| Cuesheet::parse(total, &text));
    rep.observe_cost(obs.cpu_us, obs.peak_alloc);
    let replay = || J::obj().set("total", total).set("text", text);
    match obs.result {
        Err(p) => rep.violation("panic", format!("cue-parse:{}", p.signature()), format!("Cuesheet::parse: {} at {}", p.msg, p.location), replay()),
        Ok(Err(e)) => rep.count("cue_parse", crate::api::show(&e)),
        Ok(Ok(c)) => {
            rep.count("cue_parse", "accepted");
            rep.nontrivial(hash_str(&text) ^ total);
            // every accessor on the imported sheet, and serialisation must not panic either
            let r = mon::guard(|| {
                let _ = c.track_sample_ranges().count();
                let _ = c.track_byte_ranges(2, 16).count();
                let _ = c.tracks().count();
                let _ = c.display("f").to_string();
                let mut bl = BlockList::new(rand_streaminfo(&mut Rng::new(1)));
                bl.insert(c.clone());
                let mut buf = vec![];
                let _ = metadata::write_blocks(&mut buf, bl.blocks());
            });
            if let Err(p) = r {
                rep.violation("panic", format!("cue-accessor:{}", p.signature()), format!("accessor / serialisation of an imported cue sheet panicked: {} at {}", p.msg, p.location), replay());
            }
        }
    }
}

/// picture sniffers: `Picture::new` on an image header
pub fn drive_image(rep: &mut Report, img: &[u8]) {
    let img = img.to_vec();
    rep.eval();
    rep.case_begin(&format!("image {}", img.iter().take(40).map(|b| format!("{b:02x}")).collect::<String>()));
    rep.count("input_class", "image");
    let obs = mon::observe(|| Picture::new(PictureType::FrontCover, "d", img.clone()));
    rep.observe_cost(obs.cpu_us, obs.peak_alloc);
    match obs.result {
        Err(p) => rep.violation("panic", format!("picture-sniff:{}", p.signature()), format!("Picture::new: {} at {}", p.msg, p.location), J::obj().set("image", J::hex(&img))),
        Ok(Err(e)) => rep.count("image_sniff", crate::api::show(&e).split('(').next().unwrap_or("").to_string()),
        Ok(Ok(p)) => {
            rep.count("image_sniff", format!("accepted:{}", p.media_type));
            rep.nontrivial(fnv(&img));
        }
    }
    if obs.peak_alloc > mon::alloc_bound(img.len()) {
        rep.violation("alloc", "alloc:Picture::new", format!("peak allocation {}", obs.peak_alloc), J::obj().set("image", J::hex(&img)));
    }
}

pub fn run_c12(ctx: &Ctx, rep: &mut Report) {
    if let Some(path) = &ctx.replay {
        let text = std::fs::read_to_string(path).expect("replay");
        let j = crate::json::parse(&text).expect("json");
        let r = j.get("replay").unwrap_or(&j);
        if let Some(b) = r.get("bytes").and_then(|x| x.unhex()) {
            drive_metadata_bytes(rep, &b, "replay", "replay");
        } else if let (Some(t), Some(total)) = (r.get("text").and_then(|x| x.as_str()), r.get("total").and_then(|x| x.as_u64())) {
            eprintln!("{:?}", mon::guard(|| Cuesheet::parse(total, t).map(|c| c.track_count())));
        } else if let Some(b) = r.get("image").and_then(|x| x.unhex()) {
            eprintln!("{:?}", mon::guard(|| Picture::new(PictureType::Other, "", b).map(|p| (p.width, p.height))));
        }
        for v in &rep.violations {
            eprintln!("VIOLATION-DETAIL {} {}: {}", v.kind, v.sig, v.detail);
        }
        return;
    }
    if ctx.extra.iter().any(|a| a == "--tiny") {
        // Miri tier: a few small sections / cue texts / image headers per process
        let mut rng = ctx.rng(0x7112);
        let mut done = 0;
        let mut tries = 0;
        while done < 2 && tries < 200 {
            tries += 1;
            let (b, what) = extreme_section(&mut rng);
            if b.len() <= 400 {
                drive_metadata_bytes(rep, &b, &what, "extreme-field");
                done += 1;
            }
        }
        let (total, text) = if ctx.shard % 2 == 0 { nearly_valid_cue_text(&mut rng) } else { hostile_cue_text(&mut rng) };
        if text.len() < 600 {
            drive_cue_text(rep, total, &text);
        }
        drive_image(rep, &rm::png_header(rng.next() as u32, rng.next() as u32, *rng.pick(&[1u8, 8, 16, 255]), *rng.pick(&[0u8, 2, 3, 6]), Some(9)));
        drive_image(rep, &rm::jpeg_header(*rng.pick(&[8u8, 12, 255]), rng.next() as u16, rng.next() as u16, *rng.pick(&[1u8, 3, 255]), 0xC0, &[(0xE0, 16)]));
        return;
    }
    let mut rng = ctx.rng(0xC12);
    let mut i = 0u64;
    while i < 400 || ctx.time_left() {
        i += 1;
        match i % 8 {
            0 | 1 => {
                let (b, what) = extreme_section(&mut rng);
                drive_metadata_bytes(rep, &b, &what, "extreme-field");
            }
            2 => {
                // valid list serialised by the crate, then mutated
                let bl = rand_blocklist(&mut rng);
                let mut buf = vec![];
                if matches!(mon::guard(|| metadata::write_blocks(&mut buf, bl.blocks()).is_ok()), Ok(true)) && buf.len() < 200_000 {
                    drive_metadata_bytes(rep, &buf, "crate-serialised list", "valid");
                    for _ in 0..4 {
                        let mut m = buf.clone();
                        for _ in 0..rng.usize(1, 3) {
                            let p = rng.usize(0, m.len() - 1);
                            match rng.below(3) {
                                0 => m[p] ^= 1 << rng.below(8),
                                1 => m[p] = rng.next() as u8,
                                _ => m[p] = *rng.pick(&[0u8, 0xFF, 0x7F, 0x80]),
                            }
                        }
                        if rng.chance(1, 4) {
                            let cut = rng.usize(0, m.len());
                            m.truncate(cut);
                        }
                        drive_metadata_bytes(rep, &m, "mutated crate-serialised list", "mutated");
                    }
                }
            }
            3 => {
                let b = crafted_section(&mut rng);
                drive_metadata_bytes(rep, &b, "independently serialised section", "crafted");
            }
            4 => {
                let n = rng.usize(0, 300);
                let mut b = rng.bytes(n);
                if rng.chance(2, 3) {
                    let mut v = b"fLaC".to_vec();
                    v.append(&mut b);
                    b = v;
                }
                drive_metadata_bytes(rep, &b, "random bytes", "random");
            }
            5 => {
                // cue sheet text import
                let (total, text) = hostile_cue_text(&mut rng);
                drive_cue_text(rep, total, &text);
            }
            _ => {
                // picture sniffers
                let img: Vec<u8> = match rng.below(9) {
                    8 => {
                        // palette PNG whose chunk in front of PLTE declares a length at the edges of u32
                        // (length + the 4 CRC bytes wraps), with a genuine PLTE chunk behind it
                        let mut v = b"\x89PNG\r\n\x1a\n".to_vec();
                        v.extend_from_slice(&13u32.to_be_bytes());
                        v.extend_from_slice(b"IHDR");
                        v.extend_from_slice(&[0, 0, 0, 16, 0, 0, 0, 16, *rng.pick(&[1u8, 2, 4, 8]), 3, 0, 0, 0, 0, 0, 0, 0]);
                        let len = *rng.pick(&[0u32, 1, 0x7FFF_FFFF, 0x8000_0000, 0xFFFF_FFF0, 0xFFFF_FFFB, 0xFFFF_FFFC, 0xFFFF_FFFD, 0xFFFF_FFFE, 0xFFFF_FFFF]);
                        v.extend_from_slice(&len.to_be_bytes());
                        v.extend_from_slice(*rng.pick(&[b"gAMA", b"tEXt", b"sRGB", b"IDAT"]));
                        v.extend(rng.rbytes(0, 12));
                        v.extend_from_slice(&3u32.to_be_bytes());
                        v.extend_from_slice(b"PLTE");
                        v.extend_from_slice(&[1, 2, 3, 0, 0, 0, 0]);
                        rep.count("png_chunk_length_edge", format!("{len:#x}"));
                        v
                    }
                    0 => rm::png_header(rng.next() as u32, rng.next() as u32, *rng.pick(&[0u8, 1, 8, 16, 64, 85, 86, 128, 255]), *rng.pick(&[0u8, 2, 3, 4, 6, 7]), if rng.chance(1, 2) { Some(*rng.pick(&[0u32, 3, 4, 768, 0xFFFFFFFF])) } else { None }),
                    1 => rm::jpeg_header(*rng.pick(&[0u8, 8, 12, 16, 64, 128, 255]), rng.next() as u16, rng.next() as u16, *rng.pick(&[0u8, 1, 3, 4, 16, 255]), *rng.pick(&[0xC0u8, 0xC2, 0xCF, 0xC4, 0xC8]), &[(0xE0, 16), (0xDB, *rng.pick(&[0u16, 1, 2, 67, 65535]))]),
                    2 => rm::gif_header(rng.next() as u16, rng.next() as u16, rng.next() as u8),
                    3 => {
                        let mut v = rm::png_header(1, 1, 8, 3, Some(9));
                        let cut = rng.usize(0, v.len());
                        v.truncate(cut);
                        v
                    }
                    4 => {
                        let mut v = rm::jpeg_header(8, 1, 1, 3, 0xC0, &[(0xE0, 16)]);
                        let cut = rng.usize(0, v.len());
                        v.truncate(cut);
                        v
                    }
                    5 => {
                        let mut v = b"\xFF\xD8\xFF".to_vec();
                        v.extend(rng.rbytes(0, 60));
                        v
                    }
                    6 => {
                        let mut v = b"\x89PNG\r\n\x1a\n".to_vec();
                        v.extend(rng.rbytes(0, 80));
                        v
                    }
                    _ => rng.rbytes(0, 64),
                };
                drive_image(rep, &img);
            }
        }
    }
}
