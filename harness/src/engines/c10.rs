//! C10 — metadata updates never disturb the audio and are size-neutral when in place
//! (edit histories against a byte-image model: junk | fLaC | blocks | frames).

use crate::api::*;
use crate::io::Mem;
use crate::json::J;
use crate::mon;
use crate::report::{fnv, hash_str, Report};
use crate::Ctx;
use flac_codec::metadata::{self, *};
use flacref::dec::{decode_file, walk_metadata, Rules};
use flacref::meta as rm;
use flacref::rng::Rng;

#[derive(Debug, Clone)]
pub enum Edit {
    /// set TITLE to a value of this length
    SetTitle(usize),
    AddField(usize),
    RemoveComments,
    /// a zero-length comment entry (legal: the entry count and each length are explicit)
    AddEmptyEntry,
    AddPicture(usize),
    RemovePictures,
    AddApplication(usize),
    RemoveApplications,
    /// set the first padding block's size
    SetPadding(u32),
    AddPadding(u32),
    RemovePadding,
    Reorder,
    Noop,
    /// the callback returns an error after editing
    FailAfterEdit,
    /// the callback produces a list that fails validation (two seek tables are impossible via
    /// BlockList, so: a picture list with two PNG icons)
    TwoPngIcons,
}

fn apply(e: &Edit, bl: &mut BlockList) -> Result<(), flac_codec::Error> {
    match e {
        Edit::SetTitle(n) => bl.update::<VorbisComment>(|vc| vc.set("TITLE", "t".repeat(*n))),
        Edit::AddField(n) => bl.update::<VorbisComment>(|vc| vc.insert("EXTRA", "e".repeat(*n))),
        Edit::RemoveComments => bl.remove::<VorbisComment>(),
        Edit::AddEmptyEntry => bl.update::<VorbisComment>(|vc| vc.fields.push(String::new())),
        Edit::AddPicture(n) => {
            bl.insert(Picture { picture_type: PictureType::FrontCover, media_type: "image/png".into(), description: "d".into(), width: 1, height: 1, color_depth: 24, colors_used: None, data: vec![7u8; *n] });
        }
        Edit::RemovePictures => bl.remove::<Picture>(),
        Edit::AddApplication(n) => {
            bl.insert(Application { id: 0x74657374, data: vec![1u8; *n] });
        }
        Edit::RemoveApplications => bl.remove::<Application>(),
        Edit::SetPadding(n) => {
            let size = (*n).try_into().map_err(|_| flac_codec::Error::ExcessiveBlockSize)?;
            bl.update::<Padding>(|p| p.size = size)
        }
        Edit::AddPadding(n) => {
            bl.insert(Padding { size: (*n).try_into().map_err(|_| flac_codec::Error::ExcessiveBlockSize)? });
        }
        Edit::RemovePadding => bl.remove::<Padding>(),
        Edit::Reorder => bl.sort_by(|t| match t {
            OptionalBlockType::Padding => 0,
            OptionalBlockType::Picture => 1,
            OptionalBlockType::Application => 2,
            OptionalBlockType::VorbisComment => 3,
            OptionalBlockType::SeekTable => 4,
            OptionalBlockType::Cuesheet => 5,
        }),
        Edit::Noop => {}
        Edit::FailAfterEdit => {
            bl.update::<VorbisComment>(|vc| vc.insert("DOOMED", "x"));
            return Err(flac_codec::Error::NoSamples);
        }
        Edit::TwoPngIcons => {
            for _ in 0..2 {
                bl.insert(Picture { picture_type: PictureType::Png32x32, media_type: "image/png".into(), description: String::new(), width: 32, height: 32, color_depth: 24, colors_used: None, data: vec![1, 2, 3] });
            }
        }
    }
    Ok(())
}

/// base file: generator-made frames behind a chosen block layout, preceded by `junk` bytes
pub fn base_file(rng: &mut Rng) -> Option<(Vec<u8>, usize)> {
    let mut c = super::c03::random_case(rng, false);
    c.params.md5 = flacref::sgen::Md5Mode::Correct;
    c.params.seek = if rng.chance(1, 2) { flacref::sgen::SeekMode::EveryFrame } else { flacref::sgen::SeekMode::None };
    c.params.extra_blocks.clear();
    let layout = rng.below(6);
    let pads: Vec<usize> = match layout {
        0 => vec![],
        1 => vec![rng.usize(0, 300)],
        2 => vec![rng.usize(0, 40), rng.usize(0, 300)],
        3 => vec![rng.usize(0, 20), rng.usize(0, 20), rng.usize(0, 500)],
        4 => vec![4096],
        _ => vec![0],
    };
    let mut blocks: Vec<rm::RawBlock> = vec![];
    if rng.chance(2, 3) {
        let fields: Vec<Vec<u8>> = (0..rng.usize(0, 3)).map(|i| format!("K{i}={}", "v".repeat(rng.usize(0, 30))).into_bytes()).collect();
        blocks.push(rm::vorbis_comment(b"base vendor", &fields));
    }
    if rng.chance(1, 3) {
        let n = rng.usize(0, 60);
        blocks.push(rm::application(*b"appl", &rng.bytes(n)));
    }
    for (i, p) in pads.iter().enumerate() {
        // padding first / middle / last
        let at = match (i, rng.below(3)) {
            (0, 0) => 0,
            (_, 1) => blocks.len() / 2,
            _ => blocks.len(),
        };
        blocks.insert(at.min(blocks.len()), rm::padding(*p));
    }
    c.params.extra_blocks = blocks.into_iter().map(|b| (b.btype, b.body)).collect();
    let g = flacref::sgen::build_stream(&c.params, &c.pcm, &c.plans);
    decode_file(&g.bytes, &Rules::LENIENT).ok()?;
    let junk = *rng.pick(&[0usize, 0, 3, 100]);
    let mut file: Vec<u8> = (0..junk).map(|i| (i as u8) ^ 0xA5).collect();
    file.extend_from_slice(&g.bytes);
    Some((file, junk))
}

fn block_summary(bytes: &[u8]) -> Option<Vec<(u8, usize)>> {
    walk_metadata(bytes, false).ok().map(|(_, b, _, _)| b.iter().map(|m| (m.btype, m.len)).collect())
}

pub struct StepOutcome {
    pub file: Vec<u8>,
    pub ok: bool,
}

/// One update step; returns the file as it is afterwards.
pub fn step(rep: &mut Report, file: &[u8], junk: usize, edit: &Edit, history: &[Edit], via_path: bool) -> Option<Vec<u8>> {
    rep.eval();
    rep.count("edit", format!("{edit:?}").split('(').next().unwrap_or(""));
    rep.count("api", if via_path { "update(path)" } else { "update_file" });
    let replay = || J::obj().set("file", J::hex(&file[..file.len().min(40000)])).set("junk", junk).set("edit", format!("{edit:?}")).set("history", format!("{history:?}")).set("via_path", via_path);
    let before = decode_file(&file[junk..], &Rules::LENIENT).ok()?;
    let frames_before = &file[junk + before.frames_start..];
    let mut captured: Option<BlockList> = None;
    // run the update
    let (result, after_original, rebuilt): (Result<bool, String>, Vec<u8>, Option<Vec<u8>>) = if via_path {
        let dir = crate::api::scratch_dir();
        let path = dir.join(format!("c10-{}-{:x}.flac", std::process::id(), fnv(file)));
        std::fs::write(&path, &file[junk..]).ok()?;
        let r = mon::guard(|| {
            metadata::update(&path, |bl: &mut BlockList| -> Result<(), flac_codec::Error> {
                let r = apply(edit, bl);
                captured = Some(bl.clone());
                r
            })
        });
        let after = std::fs::read(&path).unwrap_or_default();
        let _ = std::fs::remove_file(&path);
        match r {
            Err(p) => {
                rep.violation("panic", p.signature(), format!("update({edit:?}): {} at {}", p.msg, p.location), replay());
                return None;
            }
            Ok(r) => {
                let mut full = file[..junk].to_vec();
                full.extend_from_slice(&after);
                (r.map_err(|e| crate::api::show(&e)), full, None)
            }
        }
    } else {
        let mut orig = Mem::with_data(file.to_vec());
        orig.pos = junk as u64;
        let mut rb = Mem::new();
        let r = mon::guard(|| {
            let rbr = &mut rb;
            metadata::update_file(&mut orig, move || Ok(rbr), |bl: &mut BlockList| -> Result<(), flac_codec::Error> {
                let r = apply(edit, bl);
                captured = Some(bl.clone());
                r
            })
        });
        match r {
            Err(p) => {
                rep.violation("panic", p.signature(), format!("update_file({edit:?}): {} at {}", p.msg, p.location), replay());
                return None;
            }
            Ok(r) => (r.map_err(|e| crate::api::show(&e)), orig.data, Some(rb.data)),
        }
    };
    match result {
        Err(e) => {
            rep.count("update_outcome", format!("err:{}", err_name(&e)));
            // callback / validation failure: the original is byte-for-byte untouched
            if after_original != file {
                rep.violation("original-modified", format!("original-modified-on-error:{}", format!("{edit:?}").split('(').next().unwrap_or("")), format!("update returned Err({e}) but the original file changed"), replay());
                return None;
            }
            if let Some(rb) = &rebuilt {
                if !rb.is_empty() {
                    rep.count("note", "rebuilt-target-written-although-error");
                }
            }
            rep.nontrivial(fnv(file) ^ hash_str(&format!("{edit:?}")));
            Some(file.to_vec())
        }
        Ok(false) => {
            rep.count("update_outcome", "in-place");
            let after = &after_original;
            if after.len() != file.len() {
                rep.violation("size", "in-place-length-changed", format!("reported in-place but the file length went from {} to {}", file.len(), after.len()), replay());
                return None;
            }
            if after[..junk] != file[..junk] {
                rep.violation("audio-disturbed", "junk-before-stream-modified", "bytes before the stream start changed".to_string(), replay());
                return None;
            }
            let d = match decode_file(&after[junk..], &Rules::LENIENT) {
                Ok(d) => d,
                Err(e) => {
                    rep.violation("audio-disturbed", format!("in-place-result-undecodable:{}", e.rule), format!("after an in-place update the file is rejected by the reference decoder: {e}"), replay());
                    return None;
                }
            };
            if d.frames_start != before.frames_start {
                rep.violation("audio-disturbed", "first-frame-offset-moved", format!("first frame moved from {} to {}", before.frames_start, d.frames_start), replay());
                return None;
            }
            if &after[junk + d.frames_start..] != frames_before {
                rep.violation("audio-disturbed", "frame-bytes-changed", "bytes from the first audio frame onward changed".to_string(), replay());
                return None;
            }
            if d.pcm != before.pcm {
                rep.violation("audio-disturbed", "pcm-changed", "decoded PCM changed".to_string(), replay());
                return None;
            }
            // blocks read back == captured list apart from the first padding's size
            if let Some(cap) = &captured {
                match BlockList::read(std::io::Cursor::new(&after[junk..])) {
                    Ok(back) => {
                        let strip = |bl: &BlockList| -> Vec<Block> {
                            let mut first_padding_seen = false;
                            bl.clone()
                                .into_iter()
                                .map(|b| match b {
                                    Block::Padding(_) if !first_padding_seen => {
                                        first_padding_seen = true;
                                        Block::Padding(Padding { size: 0u8.into() })
                                    }
                                    other => other,
                                })
                                .collect()
                        };
                        if strip(&back) != strip(cap) {
                            rep.violation("edit-lost", "in-place-blocks-differ-from-edit", format!("blocks read back after the in-place update differ from the edited list (beyond the first padding's size): {:?} vs {:?}", block_summary(&after[junk..]), cap.blocks().map(|b| format!("{}", b.block_type())).collect::<Vec<_>>()), replay());
                            return None;
                        }
                    }
                    Err(e) => {
                        rep.violation("edit-lost", "in-place-result-unreadable", crate::api::show(&e), replay());
                        return None;
                    }
                }
            }
            rep.nontrivial(fnv(file) ^ hash_str(&format!("{edit:?}")));
            Some(after.clone())
        }
        Ok(true) => {
            rep.count("update_outcome", "rebuilt");
            let new_file: Vec<u8> = match &rebuilt {
                Some(rb) => {
                    // update_file: the original must be untouched, the rebuilt target holds the new file
                    if after_original != file {
                        rep.violation("original-modified", "original-modified-on-rebuild", "reported rebuilt, but the original object was modified".to_string(), replay());
                        return None;
                    }
                    rb.clone()
                }
                None => after_original[junk..].to_vec(),
            };
            // expected: serialised edited list followed by the identical frames
            if let Some(cap) = &captured {
                let mut expect = vec![];
                if metadata::write_blocks(&mut expect, cap.blocks()).is_ok() {
                    expect.extend_from_slice(frames_before);
                    if new_file != expect {
                        let at = new_file.iter().zip(&expect).position(|(a, b)| a != b);
                        rep.violation(
                            "rebuild",
                            if new_file.len() != expect.len() { "rebuilt-file-length-differs" } else { "rebuilt-file-bytes-differ" },
                            format!("rebuilt file ({} bytes) is not the edited blocks followed by the identical frames ({} bytes); first difference at {at:?}", new_file.len(), expect.len()),
                            replay(),
                        );
                        return None;
                    }
                }
            }
            match decode_file(&new_file, &Rules::LENIENT) {
                Ok(d) if d.pcm == before.pcm => {}
                Ok(_) => {
                    rep.violation("audio-disturbed", "pcm-changed-after-rebuild", "decoded PCM changed".to_string(), replay());
                    return None;
                }
                Err(e) => {
                    rep.violation("audio-disturbed", format!("rebuilt-file-undecodable:{}", e.rule), format!("{e}"), replay());
                    return None;
                }
            }
            // the crate's own decoder agrees
            let dd = decode_all(std::io::Cursor::new(&new_file[..]), Rd::SampleRead, 1 << 16);
            if dd.error.is_some() || dd.samples != before.interleaved() {
                rep.violation("audio-disturbed", "crate-decoder-disagrees-after-rebuild", format!("{:?}", dd.error), replay());
                return None;
            }
            rep.nontrivial(fnv(file) ^ hash_str(&format!("{edit:?}")));
            let mut full = file[..junk].to_vec();
            full.extend_from_slice(&new_file);
            Some(full)
        }
    }
}

fn random_edit(rng: &mut Rng) -> Edit {
    match rng.below(17) {
        0 | 1 => Edit::SetTitle(rng.usize(0, 400)),
        2 => Edit::AddField(rng.usize(0, 100)),
        3 => Edit::RemoveComments,
        4 => Edit::AddPicture(rng.usize(0, 300)),
        5 => Edit::RemovePictures,
        6 => Edit::AddApplication(rng.usize(0, 100)),
        7 => Edit::RemoveApplications,
        8 => Edit::SetPadding(rng.usize(0, 600) as u32),
        9 => Edit::AddPadding(rng.usize(0, 100) as u32),
        10 => Edit::RemovePadding,
        11 => Edit::Reorder,
        12 => Edit::Noop,
        13 => Edit::FailAfterEdit,
        14 => Edit::TwoPngIcons,
        15 => Edit::AddEmptyEntry,
        _ => Edit::SetTitle(rng.usize(0, 30)),
    }
}

pub fn run(ctx: &Ctx, rep: &mut Report) {
    if let Some(path) = &ctx.replay {
        let text = std::fs::read_to_string(path).expect("replay");
        eprintln!("C10 replay: the stored file, edit and history:\n{}", &text[..text.len().min(2500)]);
        return;
    }
    let mut rng = ctx.rng(0xC10);
    let mut i = 0u64;
    while i < 30 || ctx.time_left() {
        i += 1;
        let Some((file0, junk)) = base_file(&mut rng) else { continue };
        rep.case_begin(&format!("c10 case {i} file {} bytes junk {junk} blocks {:?}", file0.len(), block_summary(&file0[junk..])));
        // (a) size sweep around the exact fit of the first padding block: delta -8..+8
        if i % 3 == 0 {
            if let Ok((_, blocks, _, _)) = walk_metadata(&file0[junk..], false) {
                let first_pad = blocks.iter().find(|b| b.btype == 1).map(|b| b.len).unwrap_or(0);
                // measure the growth per title byte with a dry run: TITLE=<n> costs n + const
                let base_cost = {
                    // size of metadata after SetTitle(0) minus before
                    let mut o = Mem::with_data(file0.clone());
                    o.pos = junk as u64;
                    let mut rb = Mem::new();
                    let rbr = &mut rb;
                    let mut newsize = None;
                    let _ = metadata::update_file(&mut o, move || Ok(rbr), |bl: &mut BlockList| -> Result<(), flac_codec::Error> {
                        apply(&Edit::SetTitle(0), bl)?;
                        let mut buf = vec![];
                        metadata::write_blocks(&mut buf, bl.blocks())?;
                        newsize = Some(buf.len());
                        Err(flac_codec::Error::NoSamples) // abort: measurement only
                    });
                    newsize.map(|n| n as i64 - (blocks.iter().map(|b| b.len + 4).sum::<usize>() as i64 + 4))
                };
                if let Some(cost0) = base_cost {
                    for delta in -8i64..=8 {
                        // choose n so that growth == first_pad + delta (growth = cost0 + n)
                        let n = first_pad as i64 + delta - cost0;
                        if n < 0 {
                            continue;
                        }
                        rep.count("exact_fit_delta", delta);
                        let e = Edit::SetTitle(n as usize);
                        step(rep, &file0, junk, &e, &[], false);
                    }
                }
            }
        }
        // (b) histories of 1..8 edits, each step judged against the file as left by the previous one
        let len = rng.usize(1, 8);
        let via_path = rng.chance(1, 6) && junk == 0;
        let mut file = file0.clone();
        let mut history = vec![];
        for _ in 0..len {
            let e = random_edit(&mut rng);
            match step(rep, &file, junk, &e, &history, via_path) {
                Some(f) => file = f,
                None => break,
            }
            history.push(e);
        }
        rep.count("history_length", history.len());
        rep.sample(|| J::obj().set("file_bytes", file0.len()).set("junk", junk).set("blocks", format!("{:?}", block_summary(&file0[junk..]))).set("history", format!("{history:?}")).set("via_path", via_path));
    }
    // (c) the 24-bit padding limit (one large file per shard 0)
    // the padding after the edit ends up 2, 1, 0 bytes below the limit, exactly at it, and beyond
    if ctx.shard < 8 {
        for shrink in [[1usize, 98], [99, 100], [101, 102], [200, 100], [100, 99], [10, 100], [100, 101], [98, 100]][ctx.shard as usize] {
            let mut r2 = Rng::new(ctx.seed ^ 0xBEEF);
            let mut c = super::c03::random_case(&mut r2, false);
            c.params.md5 = flacref::sgen::Md5Mode::Correct;
            c.params.extra_blocks = vec![(4, rm::vorbis_comment(b"v", &[format!("TITLE={}", "x".repeat(300)).into_bytes()]).body), (1, vec![0u8; (1 << 24) - 1 - 100])];
            let g = flacref::sgen::build_stream(&c.params, &c.pcm, &c.plans);
            rep.count("padding_limit_case", shrink);
            // shrinking the title by more than 100 bytes would push the padding beyond 2^24-1: must rebuild (or stay valid)
            step(rep, &g.bytes, 0, &Edit::SetTitle(300 - shrink.min(300)), &[], false);
        }
    }
}
