//! C09 — STREAMINFO and SEEKTABLE written at finalize are truthful, and the
//! header rewrite neither moves nor overwrites audio (offline checker over the
//! recorded write/seek event log of the sink).

use super::common::*;
use crate::api::*;
use crate::io::{Mem, Op};
use crate::json::J;
use crate::mon;
use crate::report::{fnv, Report};
use crate::Ctx;
use flacref::dec::{decode_file, Rules};
use flacref::rng::Rng;

fn replay_json(cfg: &EncCfg, front: Front, recipe: &PcmRecipe, start: usize) -> J {
    J::obj().set("cfg", cfg.to_json()).set("front", format!("{front:?}")).set("recipe", recipe.to_json()).set("start_offset", start)
}

pub fn run_case(rep: &mut Report, cfg: &EncCfg, front: Front, recipe: &PcmRecipe, start: usize, record: bool) {
    let pcm = recipe.make(cfg.channels as usize, cfg.bps);
    rep.case_begin(&format!("{cfg:?} {front:?} {recipe:?} start {start}"));
    rep.eval();
    rep.count("seek_policy", format!("{:?}", cfg.seek).split('(').next().unwrap_or(""));
    rep.count("padding", format!("{:?}", cfg.padding).split('(').next().unwrap_or(""));
    rep.count("declared_total", cfg.declare_total);
    rep.count("start_offset", start);
    let junk: Vec<u8> = (0..start).map(|i| (i * 37 + 11) as u8).collect();
    // a third of the cases write through a sink that performs (legal) short writes
    let hc = crate::report::hash_str(&format!("{cfg:?}{recipe:?}"));
    let max_write = if record && hc % 3 == 0 { [1usize, 5, 64, 1000][(hc / 3 % 4) as usize] } else { 0 };
    rep.count("sink", if max_write == 0 { "whole-writes".to_string() } else { format!("short-writes<={max_write}") });
    let replay = || replay_json(cfg, front, recipe, start);
    // with an undeclared length a fifth of the cases end in stray data short of a whole PCM frame
    // (samples for the sample writer, bytes for the byte writers): it is dropped, and nothing in
    // STREAMINFO (MD5 included) may reflect it
    let unit = match front {
        Front::Sample => cfg.channels as usize,
        Front::ByteLE | Front::ByteBE => cfg.channels as usize * (cfg.bps as usize).div_ceil(8),
        Front::Channel => 1,
    };
    let tail = if !cfg.declare_total && unit > 1 && hc % 5 == 1 { 1 + (hc / 5) as usize % (unit - 1) } else { 0 };
    rep.count("stray_tail_units", tail.min(9));
    let obs = mon::observe(|| {
        let mut m = Mem::with_data(junk.clone());
        m.record = record;
        m.max_write = max_write;
        m.pos = start as u64;
        let r = crate::api::encode_into_tail(&mut m, cfg, front, &pcm, &[], tail);
        (r, m)
    });
    rep.observe_cost(obs.cpu_us, obs.peak_alloc);
    let (res, m) = match obs.result {
        Err(p) => {
            rep.violation("panic", p.signature(), format!("{} at {}", p.msg, p.location), replay());
            return;
        }
        Ok(x) => x,
    };
    if let Err(e) = res {
        rep.violation("encode-error", format!("encode-error:{}:{}", e.stage, err_name(&e.err)), format!("finalize path failed: {e:?}"), replay());
        return;
    }
    if m.data.len() < start || m.data[..start] != junk[..] {
        rep.violation("overwrite", "bytes-before-stream-start-touched", "data that preceded the stream start in the writer was modified", replay());
    }
    let file = &m.data[start..];
    let d = match decode_file(file, &Rules::STRICT) {
        Ok(d) => d,
        Err(e) => {
            rep.violation("nonconforming", format!("refdec:{}", e.rule), format!("finished file rejected by the reference validator: {e}"), replay());
            return;
        }
    };
    let truth_pcm = d.interleaved();
    if truth_pcm != pcm {
        rep.violation("mismatch", "pcm-mismatch", first_diff(&truth_pcm, &pcm), replay());
        return;
    }
    let si = &d.info;
    let nframes = (pcm.len() / cfg.channels as usize) as u64;
    let mut bad = |rep: &mut Report, sig: &str, msg: String| rep.violation("untruthful", format!("streaminfo:{sig}"), msg, replay_json(cfg, front, recipe, start));
    if si.total != nframes {
        bad(rep, "total", format!("total {} but {} samples were written", si.total, nframes));
    }
    if si.channels != cfg.channels || si.bps as u32 != cfg.bps || si.rate != cfg.rate {
        bad(rep, "params", format!("{si:?}"));
    }
    let lens: Vec<u32> = d.frames.iter().map(|f| f.len as u32).collect();
    let (tmin, tmax) = (*lens.iter().min().unwrap(), *lens.iter().max().unwrap());
    if si.min_frame != tmin || si.max_frame != tmax {
        bad(rep, "frame-size", format!("min/max frame size {}..{} but the frames measure {}..{}", si.min_frame, si.max_frame, tmin, tmax));
    }
    if si.min_block != si.max_block || si.max_block != cfg.block_size {
        bad(rep, "block-size", format!("block size {}..{} but options said {}", si.min_block, si.max_block, cfg.block_size));
    }
    for (i, f) in d.frames.iter().enumerate() {
        let last = i + 1 == d.frames.len();
        if (!last && f.block_size != si.max_block as u32) || (last && f.block_size > si.max_block as u32) {
            bad(rep, "frame-block-size", format!("frame {i} has {} samples, advertised {}", f.block_size, si.max_block));
            break;
        }
    }
    let md5 = flacref::md5::md5_of_pcm(&pcm, cfg.bps);
    if si.md5 != md5 {
        bad(rep, "md5", format!("stored {} expected {}", flacref::md5::hex(&si.md5), flacref::md5::hex(&md5)));
    }
    // seek table
    let want_table = !matches!(cfg.seek, SeekPol::Off);
    let mut defined = vec![];
    if let Some(pts) = &d.seektable {
        rep.count("seektable", if pts.iter().any(|p| !p.is_placeholder()) { "defined-points" } else if pts.is_empty() { "empty" } else { "placeholders-only" });
        let by_sample: std::collections::HashMap<u64, usize> = d.frames.iter().enumerate().map(|(i, f)| (f.first_sample, i)).collect();
        let mut seen_ph = false;
        let mut prev: Option<u64> = None;
        for (k, p) in pts.iter().enumerate() {
            if p.is_placeholder() {
                seen_ph = true;
                continue;
            }
            if seen_ph {
                rep.violation("untruthful", "seektable:placeholder-before-point", format!("point {k} follows a placeholder"), replay());
            }
            if let Some(pv) = prev {
                if p.sample <= pv {
                    rep.violation("untruthful", "seektable:not-ascending", format!("point {k}: {} after {}", p.sample, pv), replay());
                }
            }
            prev = Some(p.sample);
            let hit = by_sample.get(&p.sample).map(|i| &d.frames[*i]);
            match hit {
                Some(f) if (f.offset - d.frames_start) as u64 == p.offset && f.block_size == p.nsamples as u32 => {}
                Some(f) => rep.violation(
                    "untruthful",
                    "seektable:wrong-offset-or-length",
                    format!("point {k} (sample {}, offset {}, len {}) but that frame lies at offset {} with {} samples", p.sample, p.offset, p.nsamples, f.offset - d.frames_start, f.block_size),
                    replay(),
                ),
                None => rep.violation("untruthful", "seektable:no-such-frame", format!("point {k} names sample {} which starts no frame", p.sample), replay()),
            }
            defined.push(*p);
        }
        rep.count_n("seekpoints_checked", "n", defined.len() as u64);
        // regeneration from the finished file with the same interval
        let interval = match cfg.seek {
            SeekPol::Frames(n) => std::num::NonZero::new(n).map(flac_codec::encode::SeekTableInterval::Frames),
            SeekPol::Seconds(s) => std::num::NonZero::new(s).map(flac_codec::encode::SeekTableInterval::Seconds),
            SeekPol::Default => Some(flac_codec::encode::SeekTableInterval::default()),
            SeekPol::Off => None,
        };
        if let Some(iv) = interval {
            match mon::guard(|| flac_codec::encode::generate_seektable(std::io::Cursor::new(file), iv)) {
                Ok(Ok(t)) => {
                    let regen: Vec<(u64, u64, u16)> = t
                        .points
                        .iter()
                        .filter_map(|p| match p {
                            flac_codec::metadata::SeekPoint::Defined { sample_offset, byte_offset, frame_samples } => Some((*sample_offset, *byte_offset, *frame_samples)),
                            _ => None,
                        })
                        .collect();
                    let ours: Vec<(u64, u64, u16)> = defined.iter().map(|p| (p.sample, p.offset, p.nsamples)).collect();
                    if regen != ours {
                        rep.violation("untruthful", "seektable:regeneration-differs", format!("written {} defined points, regenerated {}; first written {:?} first regenerated {:?}", ours.len(), regen.len(), ours.first(), regen.first()), replay());
                    } else {
                        rep.count("regenerated_table", "identical");
                    }
                }
                Ok(Err(e)) => rep.violation("untruthful", "seektable:regeneration-error", crate::api::show(&e), replay()),
                Err(p) => rep.violation("panic", p.signature(), format!("generate_seektable: {}", p.msg), replay()),
            }
        }
    } else {
        rep.count("seektable", if want_table { "absent-though-requested" } else { "absent" });
    }
    // event-log checker: appends before finalize, header rewrite confined to the metadata region
    let first_frame = (start + d.frames_start) as u64;
    let stream_end = m.data.len() as u64;
    let mut finalize_at: Option<usize> = None;
    let mut high = start as u64; // end of data written so far
    for (i, e) in m.log.iter().enumerate() {
        match e.op {
            Op::Seek if e.ok && finalize_at.is_none() && e.arg == start as u64 && high >= first_frame => finalize_at = Some(i),
            Op::Write if e.ok => {
                let end = e.pos + e.arg;
                if let Some(_) = finalize_at {
                    if e.pos < start as u64 || end > first_frame {
                        rep.violation(
                            "overwrite",
                            "finalize-write-outside-metadata",
                            format!("event {i}: finalize wrote [{}..{}) but the metadata region is [{}..{})", e.pos, end, start, first_frame),
                            replay(),
                        );
                    }
                } else {
                    if e.pos != high {
                        rep.violation("overwrite", "non-sequential-write-before-finalize", format!("event {i}: write at {} while the stream end is {}", e.pos, high), replay());
                    }
                    high = high.max(end);
                }
            }
            _ => {}
        }
    }
    match finalize_at {
        None if !record => {}
        None => rep.violation("untruthful", "no-header-rewrite-observed", "no seek back to the stream start was observed".to_string(), replay()),
        Some(i) => {
            let written_after: u64 = m.log[i..].iter().filter(|e| e.op == Op::Write && e.ok).map(|e| e.arg).sum();
            let last_end = m.log[i..].iter().filter(|e| e.op == Op::Write && e.ok).map(|e| e.pos + e.arg).max().unwrap_or(0);
            if last_end != first_frame {
                rep.violation("overwrite", "header-rewrite-does-not-end-at-first-frame", format!("rewrite ended at {last_end}, first frame at {first_frame} ({written_after} bytes rewritten)"), replay());
            }
            rep.count_n("log_events_checked", "n", m.log.len() as u64);
        }
    }
    if record && high != stream_end {
        rep.violation("overwrite", "stream-length-changed-at-finalize", format!("end before finalize {high}, after {stream_end}"), replay());
    }
    rep.nontrivial(fnv(file) ^ start as u64);
    rep.sample(|| {
        J::obj()
            .set("cfg", cfg.to_json())
            .set("front", format!("{front:?}"))
            .set("frames", d.frames.len())
            .set("seekpoints", d.seektable.as_ref().map(|t| t.len()))
            .set("defined_seekpoints", defined.len())
            .set("metadata_bytes", d.frames_start)
            .set("sink_events", m.log.len())
            .set("start_offset", start)
    });
}

pub fn run(ctx: &Ctx, rep: &mut Report) {
    if let Some(path) = &ctx.replay {
        let text = std::fs::read_to_string(path).expect("replay");
        let j = crate::json::parse(&text).expect("json");
        let r = j.get("replay").unwrap_or(&j);
        if let Some(c) = super::c01::case_from_json(r) {
            let start = r.get("start_offset").and_then(|x| x.as_u64()).unwrap_or(0) as usize;
            run_case(rep, &c.cfg, c.front, &c.recipe, start, true);
            for v in &rep.violations {
                eprintln!("VIOLATION-DETAIL {} {}: {}", v.kind, v.sig, v.detail);
            }
            if rep.violations.is_empty() {
                eprintln!("replay: no violation reproduced");
            }
        }
        return;
    }
    let mut rng = ctx.rng(0xC09);
    // systematic: seek policy x declared x padding layout x start offset
    let mut idx = 0u64;
    for seek in [SeekPol::Off, SeekPol::Default, SeekPol::Frames(1), SeekPol::Frames(2), SeekPol::Frames(7), SeekPol::Seconds(1), SeekPol::Seconds(255)] {
        for declare in [false, true] {
            for nblocks in [1usize, 2, 5, 9] {
                // padding relative to the table that Frames(1) would need: 4 + 18 * points
                let table = 4 + 18 * nblocks as u32;
                for padding in [Pad::None, Pad::Size(0), Pad::Size(table - 1), Pad::Size(table), Pad::Size(table + 1), Pad::Size(table + 4), Pad::Default] {
                    for start in [0usize, 1, 1000] {
                        idx += 1;
                        if !ctx.mine(idx) {
                            continue;
                        }
                        let mut r2 = Rng::new(ctx.seed ^ idx.wrapping_mul(0x9E3779B97F4A7C15));
                        let mut cfg = EncCfg::random(&mut r2);
                        cfg.seek = seek;
                        cfg.declare_total = declare;
                        cfg.padding = padding;
                        cfg.block_size = *r2.pick(&[16u16, 32, 192, 256]);
                        cfg.rate = *r2.pick(&[1u32, 8, 100, 8000, 44100]);
                        let frames = cfg.block_size as usize * (nblocks - 1) + r2.usize(1, cfg.block_size as usize);
                        let recipe = PcmRecipe { signal: *r2.pick(&flacref::pcm::ALL_SIGNALS), seed: r2.next(), frames };
                        run_case(rep, &cfg, FRONTS[(idx % 4) as usize], &recipe, start, true);
                    }
                }
            }
        }
    }
    while ctx.time_left() {
        let mut cfg = EncCfg::random(&mut rng);
        cfg.block_size = *rng.pick(&[16u16, 17, 64, 192, 256, 576, 1024, 4096]);
        let frames = cfg.block_size as usize * rng.usize(0, 12) + rng.usize(1, cfg.block_size as usize);
        let recipe = PcmRecipe { signal: *rng.pick(&flacref::pcm::ALL_SIGNALS), seed: rng.next(), frames: frames.min(40000) };
        let start = *rng.pick(&[0usize, 0, 1, 7, 1000]);
        run_case(rep, &cfg, *rng.pick(&FRONTS), &recipe, start, true);
    }
    // long streams (>= 2^16 samples) with a seconds-based seek table at low sample rates: many
    // seek intervals, remaining-sample counts that do not fit 16 bits, totals that are exact
    // multiples of 65536 or just beyond one; declared and undeclared
    for k in 0..6u64 {
        let mut cfg = EncCfg::default_for(if k % 3 == 2 { 2 } else { 1 }, *rng.pick(&[8u32, 16]), *rng.pick(&[100u32, 1000, 8000, 8000, 11025]));
        cfg.block_size = *rng.pick(&[17u16, 576, 1024, 4096, 4096, 4608]);
        cfg.max_lpc = None;
        cfg.max_part = 2;
        cfg.seek = SeekPol::Seconds(*rng.pick(&[1u8, 1, 2, 3]));
        cfg.declare_total = (k + ctx.shard) % 3 != 0;
        cfg.padding = *rng.pick(&[Pad::Default, Pad::Size(65536), Pad::None]);
        let base = 65536 * rng.usize(1, 3);
        let frames = match rng.below(4) {
            0 => base,
            1 => base + rng.usize(1, cfg.block_size as usize),
            2 => base + cfg.block_size as usize + rng.usize(0, 200),
            _ => base - rng.usize(1, 5000),
        };
        let recipe = PcmRecipe { signal: *rng.pick(&[flacref::pcm::Signal::Silence, flacref::pcm::Signal::Constant, flacref::pcm::Signal::Sine, flacref::pcm::Signal::NoiseLow]), seed: rng.next(), frames };
        rep.count("long_seconds_policy_case", if cfg.declare_total { "declared" } else { "undeclared" });
        run_case(rep, &cfg, *rng.pick(&FRONTS), &recipe, 0, false);
    }
    // more frames than a seek table can hold (undeclared length, table carved from padding)
    if ctx.shard == 0 {
        let mut cfg = EncCfg::default_for(1, 8, 44100);
        cfg.block_size = 16;
        cfg.max_lpc = None;
        cfg.max_part = 0;
        cfg.seek = SeekPol::Frames(1);
        cfg.padding = Pad::Size((1 << 24) - 1);
        let frames = 16 * 932_100;
        let recipe = PcmRecipe { signal: flacref::pcm::Signal::Silence, seed: 1, frames };
        rep.count("huge_frame_count_case", "run");
        run_case(rep, &cfg, Front::Sample, &recipe, 0, false);
    }
}
