//! C05 — damage is detected; whatever was delivered before the error is an
//! exact whole-frame prefix.  Exhaustive single-bit flips and truncations per
//! corpus file, must-reject classes with valid checksums, MD5 verification.

use super::c03;
use crate::api::*;
use crate::json::J;
use crate::mon;
use crate::report::{fnv, Report};
use crate::Ctx;
use flac_codec::decode::Verified;
use flacref::dec::{decode_file, Decoded, Rules};
use flacref::rng::Rng;
use flacref::sgen::*;

pub struct Corpus {
    pub label: String,
    pub bytes: Vec<u8>,
    pub pcm: Vec<i32>,
    /// interleaved-sample counts at which a frame ends (including 0)
    pub boundaries: Vec<usize>,
    pub frames_start: usize,
    pub total_known: bool,
    pub md5_present: bool,
}

fn corpus_from(label: String, bytes: Vec<u8>, d: &Decoded) -> Corpus {
    let ch = d.info.channels as usize;
    let mut boundaries = vec![0usize];
    let mut acc = 0usize;
    for f in &d.frames {
        acc += f.block_size as usize * ch;
        boundaries.push(acc);
    }
    Corpus {
        label,
        pcm: d.interleaved(),
        boundaries,
        frames_start: d.frames_start,
        total_known: d.info.total != 0,
        md5_present: d.info.md5 != [0u8; 16],
        bytes,
    }
}

/// Small files: a few frames of 16..96 samples, from the crate's encoder and from the generator.
pub fn make_corpus(rng: &mut Rng, idx: u64) -> Option<Corpus> {
    if idx % 2 == 0 {
        let mut cfg = EncCfg::random(rng);
        cfg.block_size = *rng.pick(&[16u16, 17, 24, 32, 48, 64, 96]);
        cfg.channels = rng.usize(1, if idx % 8 == 0 { 8 } else { 2 }) as u8;
        cfg.padding = *rng.pick(&[Pad::None, Pad::Size(5), Pad::Size(40)]);
        cfg.seek = *rng.pick(&[SeekPol::Off, SeekPol::Frames(1), SeekPol::Frames(3), SeekPol::Default]);
        let frames = rng.usize(1, 6) * cfg.block_size as usize + rng.usize(0, cfg.block_size as usize - 1);
        let frames = frames.min(if cfg.channels > 2 { 120 } else { 300 });
        let mut r2 = Rng::new(rng.next());
        let sig = *rng.pick(&flacref::pcm::ALL_SIGNALS);
        let pcm = flacref::pcm::generate(sig, cfg.channels as usize, cfg.bps, frames.max(1), &mut r2);
        let bytes = encode(&cfg, *rng.pick(&FRONTS), &pcm).ok()?;
        let d = decode_file(&bytes, &Rules::STRICT).ok()?;
        if d.interleaved() != pcm {
            return None;
        }
        Some(corpus_from(format!("crate-encoded {sig:?} ch{} bps{} bs{}", cfg.channels, cfg.bps, cfg.block_size), bytes, &d))
    } else {
        let mut c = c03::random_case(rng, false);
        // shrink: at most 8 frames of at most 64 samples
        let mut used = 0usize;
        let mut plans = vec![];
        for p in c.plans.iter().take(8) {
            let bs = (p.block_size as usize).min(if c.params.variable { 64 } else { p.block_size as usize });
            let _ = bs;
            plans.push(p.clone());
            used += p.block_size as usize;
            if used > 400 {
                break;
            }
        }
        if used > 1500 {
            return None;
        }
        c.plans = plans;
        c.pcm = c.pcm.iter().map(|ch| ch[..used].to_vec()).collect();
        if c.params.md5 == Md5Mode::Wrong {
            c.params.md5 = Md5Mode::Correct;
        }
        let g = build_stream(&c.params, &c.pcm, &c.plans);
        let mut rules = Rules::STRICT;
        rules.consecutive = true;
        let d = decode_file(&g.bytes, &rules).ok()?;
        if d.pcm != c.pcm {
            return None;
        }
        Some(corpus_from(format!("generated {} ch{} bps{}", c.label, c.params.channels, c.params.bps), g.bytes, &d))
    }
}

const KINDS: [Rd; 4] = [Rd::SampleRead, Rd::ByteLE, Rd::Channel, Rd::SampleIter];

/// Rules used to decide whether altered bytes "happen to form another valid stream / frame":
/// only what a decoder can be expected to detect.  Sample values outside the bit depth are not
/// among them (no decoder is obliged to range-check its output), checksums are.
const ADJUDICATE: Rules = Rules { sample_fit: false, ..Rules::LENIENT };

#[derive(Clone, Copy, PartialEq, Eq, Debug)]
pub enum Fault {
    Flip(usize),
    Cut(usize),
    MustReject,
}

/// Judges one altered file.  Returns true when every reader reported an error.
pub fn judge_altered(rep: &mut Report, c: &Corpus, altered: &[u8], fault: Fault, what: &str, expect_error: bool) -> bool {
    let mut all_err = true;
    let mut clean_samples: Option<Vec<i32>> = None;
    let mut lenient: Option<Result<Decoded, flacref::dec::Reject>> = None;
    let kinds: &[Rd] = &KINDS;
    for kind in kinds {
        let obs = mon::observe(|| decode_all(std::io::Cursor::new(altered), *kind, 4096));
        rep.observe_cost(obs.cpu_us, obs.peak_alloc);
        let replay = || {
            J::obj()
                .set("corpus", c.label.as_str())
                .set("fault", what)
                .set("reader", format!("{kind:?}"))
                .set("original", J::hex(&c.bytes))
                .set("altered", J::hex(altered))
        };
        let d = match obs.result {
            Err(p) => {
                rep.violation("panic", p.signature(), format!("{what}: {kind:?}: {} at {}", p.msg, p.location), replay());
                continue;
            }
            Ok(d) => d,
        };
        // (1) delivered samples are an exact whole-frame prefix of the original
        let n = d.samples.len();
        let is_prefix = n <= c.pcm.len() && d.samples[..] == c.pcm[..n];
        let on_boundary = c.boundaries.binary_search(&n).is_ok();
        match &d.error {
            Some(e) => {
                rep.count("outcome", format!("{}:error", fault_name(fault)));
                rep.count("error_variant", err_name(e));
                if !(is_prefix && on_boundary) && (frames_of_altered_bytes(altered, &d.samples) || checksum_collision_candidate(c, altered, &d.samples)) {
                    // the flipped bit changed where the frame ends and the 16-bit checksum over the new
                    // extent happens to match (expected once per ~65536 structure-changing flips): the
                    // altered bytes contain a frame that every conforming decoder accepts
                    rep.count("outcome", format!("{}:error-after-checksum-collision-frame", fault_name(fault)));
                } else if !(is_prefix && on_boundary) {
                    rep.violation(
                        "corrupt-delivery",
                        format!("non-prefix-before-error:{kind:?}"),
                        format!("{what}: {kind:?} delivered {n} samples before '{e}' that are not a whole-frame prefix (prefix={is_prefix}, boundary={on_boundary}) of {}", c.label),
                        replay(),
                    );
                }
                if on_boundary {
                    rep.count("frames_delivered_before_error", c.boundaries.binary_search(&n).unwrap());
                }
                // a truncated input simply ends: whatever a reader hands out when it is polled again
                // after reporting the error cannot be audio of the file
                if matches!(fault, Fault::Cut(_)) && d.samples_after_error > 0 {
                    rep.violation(
                        "corrupt-delivery",
                        format!("samples-after-error:{kind:?}"),
                        format!("{what}: {kind:?} reported '{e}' and then handed out {} more samples although the input had ended", d.samples_after_error),
                        replay(),
                    );
                }
            }
            None => {
                all_err = false;
                clean_samples = Some(d.samples.clone());
                // (2) no error: the altered bytes must themselves be a valid stream that decodes to what was delivered
                let l = lenient.get_or_insert_with(|| decode_file(altered, &ADJUDICATE));
                match l {
                    Ok(alt) if alt.interleaved() == d.samples => {
                        rep.count("outcome", format!("{}:valid-alternative-stream", fault_name(fault)));
                    }
                    Ok(_) => {
                        rep.violation(
                            "silent-accept",
                            format!("silent-wrong-output:{kind:?}"),
                            format!("{what}: {kind:?} finished without error but its output differs from what the stream defines"),
                            replay(),
                        );
                    }
                    Err(_) if matches!(fault, Fault::Flip(b) if checksum_collision_at(c, altered, b / 8)) => {
                        // no reader error after a single flipped bit is only possible when the flip moved
                        // the end of the frame onto an extent whose 16-bit checksum happens to match (the
                        // checksum of the unchanged extent cannot survive one flipped bit).  Such a frame
                        // passes every decoder's integrity check; that its content breaks a range rule
                        // (over-long residual, bytes left over behind the last frame) is not something
                        // a decoder is obliged to notice.  Counted, not a violation; a decoder that
                        // skips the comparison is still caught on the ~99% of flips without such an extent.
                        rep.count("outcome", "bitflip:accepted-checksum-collision-frame");
                    }
                    Err(rj) => {
                        if expect_error || !matches!(fault, Fault::MustReject) {
                            rep.violation(
                                "silent-accept",
                                format!("silent-accept:{}:{}", fault_name(fault), rj.rule),
                                format!("{what}: {kind:?} decoded {n} samples without any error although the altered bytes are not a valid stream ({rj})"),
                                replay(),
                            );
                        }
                    }
                }
                if !(is_prefix && on_boundary) && !matches!(l, Ok(_)) {
                    // already reported as silent accept; nothing more
                }
            }
        }
    }
    // (3) verification may only report a match when the decoded PCM hashes to the stored digest
    if c.md5_present {
        match mon::guard(|| verify_bytes(altered)) {
            Ok(Ok(Verified::MD5Match)) => {
                // truthful iff some complete decode of the altered bytes hashes to the stored digest: the
                // reference decoder's, or - when the altered bytes only pass by a checksum collision and
                // the reference rejects them on a range rule - what the crate's own readers delivered
                let stored = flacref::dec::walk_metadata(altered, false).ok().map(|(si, _, _, _)| (si.md5, si.bps as u32));
                let by_ref = match decode_file(altered, &Rules::LENIENT) {
                    Ok(alt) => flacref::md5::md5_of_pcm(&alt.interleaved(), alt.info.bps as u32) == alt.info.md5,
                    Err(_) => false,
                };
                let by_readers = match (&clean_samples, stored) {
                    (Some(s), Some((md5, bps))) => flacref::md5::md5_of_pcm(s, bps) == md5,
                    _ => false,
                };
                let ok = by_ref || by_readers;
                if !ok {
                    rep.violation(
                        "silent-accept",
                        "verify-false-match",
                        format!("{what}: verify_reader reports MD5Match on altered bytes whose PCM does not hash to the stored digest"),
                        J::obj().set("corpus", c.label.as_str()).set("fault", what).set("altered", J::hex(altered)),
                    );
                }
                rep.count("verify", "MD5Match-after-fault");
            }
            Ok(Ok(v)) => rep.count("verify", format!("{v:?}")),
            Ok(Err(_)) => rep.count("verify", "error"),
            Err(p) => rep.violation("panic", format!("verify:{}", p.signature()), p.msg.clone(), J::obj().set("altered", J::hex(altered))),
        }
    }
    // (3b) the structural walkers (`FrameIterator`, `generate_seektable`) on truncated files whose
    // STREAMINFO states the length: a cut - also one exactly on a frame boundary - leaves fewer
    // samples than promised, which they have to report like the readers do.  (With an unknown length
    // they document end-of-data as the normal end, so only declared lengths are judged.)
    if matches!(fault, Fault::Cut(_)) && c.total_known && all_err {
        let walked = mon::guard(|| -> Result<u64, String> {
            let it = flac_codec::stream::FrameIterator::new(std::io::Cursor::new(altered)).map_err(|e| crate::api::show(&e))?;
            let mut k = 0u64;
            for f in it {
                f.map_err(|e| crate::api::show(&e))?;
                k += 1;
            }
            Ok(k)
        });
        let table = mon::guard(|| {
            use flac_codec::encode::{generate_seektable, SeekTableInterval};
            generate_seektable(std::io::Cursor::new(altered), SeekTableInterval::Frames(std::num::NonZero::new(1).unwrap())).map(|t| t.points.len()).map_err(|e| crate::api::show(&e))
        });
        let replay = || J::obj().set("corpus", c.label.as_str()).set("fault", what).set("altered", J::hex(altered));
        match walked {
            Err(p) => rep.violation("panic", format!("frame-iterator:{}", p.signature()), p.msg.clone(), replay()),
            Ok(Ok(k)) => rep.violation("silent-accept", "silent-accept:truncation:FrameIterator", format!("{what}: FrameIterator walked {k} frames of a truncated file with a declared length to its end without any error"), replay()),
            Ok(Err(_)) => rep.count("outcome", "truncation:FrameIterator-error"),
        }
        match table {
            Err(p) => rep.violation("panic", format!("generate-seektable:{}", p.signature()), p.msg.clone(), replay()),
            Ok(Ok(n)) => rep.violation("silent-accept", "silent-accept:truncation:generate_seektable", format!("{what}: generate_seektable returned {n} points for a truncated file with a declared length"), replay()),
            Ok(Err(_)) => rep.count("outcome", "truncation:generate_seektable-error"),
        }
    }
    // (4) the verification entry points agree with the readers and with each other: what every reader
    // refused is not "verified" (with or without a stored MD5), and the path-based `verify` gives
    // the verdict of `verify_reader` on the same bytes (sampled: it needs a real file)
    let sampled = fnv(altered) % 24 == 0 || what.starts_with("must-reject");
    if all_err && (!c.md5_present || sampled) {
        let by_reader = mon::guard(|| verify_bytes(altered));
        if let Ok(Ok(v)) = &by_reader {
            // adjudicate like (2): the altered bytes may be another valid stream as far as the readers got
            if decode_file(altered, &Rules::LENIENT).is_err() {
                rep.violation("silent-accept", "verify-accepts-what-readers-reject", format!("{what}: every reader reported an error but verify_reader returned Ok({v:?})"), J::obj().set("corpus", c.label.as_str()).set("fault", what).set("altered", J::hex(altered)));
            }
        }
        if sampled {
            let path = crate::api::scratch_dir().join(format!("c05-{}-{:016x}.flac", std::process::id(), fnv(altered)));
            if std::fs::write(&path, altered).is_ok() {
                let by_path = mon::guard(|| flac_codec::decode::verify(&path).map_err(|e| crate::api::show(&e)));
                let _ = std::fs::remove_file(&path);
                rep.count("verify_path", match &by_path { Ok(Ok(_)) => "ok", Ok(Err(_)) => "error", Err(_) => "panic" });
                match (&by_reader, &by_path) {
                    (_, Err(p)) => rep.violation("panic", format!("verify-path:{}", p.signature()), p.msg.clone(), J::obj().set("altered", J::hex(altered))),
                    (Ok(Err(_)), Ok(Ok(v))) => rep.violation("silent-accept", "verify-path-accepts-what-verify-reader-rejects", format!("{what}: verify(path) returned Ok({v:?}) for bytes on which verify_reader reports an error"), J::obj().set("corpus", c.label.as_str()).set("fault", what).set("altered", J::hex(altered))),
                    _ => {}
                }
            }
        }
    }
    all_err
}

/// Are `delivered` exactly the samples of the first k frames that the independent decoder
/// (only the rules that hold under every reading of the RFC, checksums included) accepts in
/// the altered bytes, for some k?
fn frames_of_altered_bytes(altered: &[u8], delivered: &[i32]) -> bool {
    let Ok((si, _, _, start)) = flacref::dec::walk_metadata(altered, false) else { return false };
    let mut off = start;
    let mut acc: Vec<i32> = vec![];
    if delivered.is_empty() {
        return true;
    }
    while off < altered.len() {
        match flacref::dec::decode_frame(altered, off, Some(&si), &ADJUDICATE) {
            Ok((fi, ch)) => {
                acc.extend(flacref::dec::interleave(&ch));
                off += fi.len;
                if acc.len() >= delivered.len() {
                    return acc == delivered;
                }
            }
            Err(_) => return false,
        }
    }
    false
}

/// The delivered samples match the original up to frame f and then differ.  Frame f starts at the
/// same byte offset as in the original (everything before it was consumed unchanged).  Is there an
/// extent [start, e) in the altered bytes whose trailing 16 bits are the CRC-16 (bit-serial, own
/// implementation) of the bytes before them?  Then the damaged bytes contain a checksum-consistent
/// frame candidate that no decoder can tell from a real frame (a 16-bit checksum collides once
/// per 65536 structure-changing flips; the chance that one of the ~200 candidate extents matches
/// by accident while the crate did NOT verify the checksum is ~0.3 %).
/// Same question for a known byte position of the damage: does the frame of the ORIGINAL file
/// that contains byte `pos` admit, in the altered bytes, an extent whose last 16 bits are the
/// CRC-16 of what precedes them?  A single flipped bit can never leave the checksum of the
/// unchanged extent intact, so a "yes" means the flip moved the frame's end onto such an extent.
fn checksum_collision_at(c: &Corpus, altered: &[u8], pos: usize) -> bool {
    let Ok(orig) = decode_file(&c.bytes, &Rules::LENIENT) else { return false };
    let Some(fr) = orig.frames.iter().find(|f| pos >= f.offset && pos < f.offset + f.len) else { return false };
    collision_from(altered, fr.offset, fr.len)
}

fn collision_from(altered: &[u8], start: usize, len: usize) -> bool {
    let max_e = (start + 2 * len + 64).min(altered.len());
    for e in (start + 6)..=max_e {
        let want = ((altered[e - 2] as u16) << 8) | altered[e - 1] as u16;
        if flacref::crc::crc16(&altered[start..e - 2]) == want {
            return true;
        }
    }
    false
}

fn checksum_collision_candidate(c: &Corpus, altered: &[u8], delivered: &[i32]) -> bool {
    let Ok(orig) = decode_file(&c.bytes, &Rules::LENIENT) else { return false };
    // first frame whose samples differ
    let mut f = None;
    for (i, w) in c.boundaries.windows(2).enumerate() {
        let (a, b) = (w[0], w[1].min(delivered.len()));
        if a >= delivered.len() {
            break;
        }
        if delivered[a..b] != c.pcm[a..b] || w[1] > delivered.len() {
            f = Some(i);
            break;
        }
    }
    let Some(f) = f else { return false };
    let Some(fr) = orig.frames.get(f) else { return false };
    collision_from(altered, fr.offset, fr.len)
}

fn raw_body_flips(rep: &mut Report, c: &Corpus) {
    use flac_codec::decode::FlacStreamReader;
    let Ok(d) = decode_file(&c.bytes, &Rules::LENIENT) else { return };
    if c.bytes.len() > 3000 || d.frames.is_empty() || d.frames.iter().any(|f| f.rate_code == 0 || f.bps_code == 0 || f.rate == 0) {
        return;
    }
    let base = d.frames_start;
    let mut raw = c.bytes[base..d.end.min(c.bytes.len())].to_vec();
    let ch = d.info.channels as usize;
    for (fi, f) in d.frames.iter().enumerate() {
        let (s, e) = (f.offset - base + f.header_len, f.offset - base + f.len);
        for pos in s..e {
            for bit in 0..8 {
                // one bit in seven, spread by position
                if (pos * 8 + bit + fi) % 7 != 0 {
                    continue;
                }
                raw[pos] ^= 1 << bit;
                rep.eval();
                let r = mon::guard(|| {
                    let mut rd = FlacStreamReader::new(std::io::Cursor::new(&raw[..]));
                    let mut outcome: Vec<Result<Vec<i32>, String>> = vec![];
                    for _ in 0..=fi {
                        match rd.read() {
                            Ok(fr) => outcome.push(Ok(fr.samples.to_vec())),
                            Err(e) => {
                                outcome.push(Err(crate::api::show(&e)));
                                break;
                            }
                        }
                    }
                    outcome
                });
                let replay = || J::obj().set("corpus", c.label.as_str()).set("raw_frames", J::hex(&raw)).set("flipped_byte", pos).set("bit", bit).set("frame", fi);
                match r {
                    Err(p) => rep.violation("panic", format!("stream-reader:{}", p.signature()), format!("{} at {}", p.msg, p.location), replay()),
                    Ok(out) => {
                        let want = |k: usize| c.pcm[c.boundaries[k]..c.boundaries[k + 1]].to_vec();
                        let _ = ch;
                        let intact = out.iter().take(fi).enumerate().all(|(k, o)| matches!(o, Ok(v) if *v == want(k)));
                        match out.get(fi) {
                            _ if !intact => rep.violation("corrupt-delivery", "raw-flip:earlier-frame-affected", format!("{}: a flipped bit in frame {fi} changed what the stream reader returns for an earlier frame", c.label), replay()),
                            Some(Err(_)) => rep.count("outcome", "raw-body-flip:error"),
                            Some(Ok(_)) if collision_from(&raw, f.offset - base, f.len) => rep.count("outcome", "raw-body-flip:checksum-collision-frame"),
                            Some(Ok(v)) => rep.violation(
                                "silent-accept",
                                "raw-flip:damaged-frame-not-reported",
                                format!("{}: bit {bit} of byte {pos} (body of frame {fi}) flipped: FlacStreamReader::read returned Ok ({} samples, {}) instead of an error", c.label, v.len(), if fi + 1 < d.frames.len() && *v == want(fi + 1) { "the NEXT frame - the damaged one was skipped silently" } else { "not the written frame" }),
                                replay(),
                            ),
                            None => {}
                        }
                    }
                }
                raw[pos] ^= 1 << bit;
            }
        }
    }
}

fn fault_name(f: Fault) -> &'static str {
    match f {
        Fault::Flip(_) => "bitflip",
        Fault::Cut(_) => "truncation",
        Fault::MustReject => "must-reject",
    }
}

pub fn run_corpus_file(rep: &mut Report, c: &Corpus, thorough: bool) {
    rep.case_begin(&format!("{} ({} bytes)", c.label, c.bytes.len()));
    // sanity: the unaltered file decodes completely
    let d0 = match mon::guard(|| decode_all(std::io::Cursor::new(&c.bytes[..]), Rd::SampleRead, 4096)) {
        Ok(d) => d,
        Err(p) => {
            rep.violation("panic", p.signature(), format!("{}: {} at {}", c.label, p.msg, p.location), J::obj().set("flac", J::hex(&c.bytes)));
            return;
        }
    };
    if d0.error.is_some() || d0.samples != c.pcm {
        rep.violation("decode-error", "corpus-file-does-not-decode", format!("{}: {:?}", c.label, d0.error), J::obj().set("flac", J::hex(&c.bytes)));
        return;
    }
    rep.nontrivial(fnv(&c.bytes));
    rep.count("corpus_frames", c.boundaries.len() - 1);
    rep.sample(|| {
        J::obj()
            .set("corpus_file", c.label.as_str())
            .set("bytes", c.bytes.len())
            .set("frames", c.boundaries.len() - 1)
            .set("bit_flips_enumerated", (c.bytes.len() - c.frames_start) * 8)
            .set("truncations_enumerated", c.bytes.len())
            .set("total_known", c.total_known)
    });
    let mut work = c.bytes.clone();
    // every single-bit flip in the audio frames
    for pos in c.frames_start..c.bytes.len() {
        for bit in 0..8 {
            work[pos] ^= 1 << bit;
            rep.eval();
            let what = format!("flip byte {pos} bit {bit}");
            judge_altered(rep, c, &work, Fault::Flip(pos * 8 + bit), &what, true);
            work[pos] ^= 1 << bit;
        }
    }
    // every truncation
    for cut in 0..c.bytes.len() {
        rep.eval();
        let what = format!("cut at {cut}");
        judge_altered(rep, c, &c.bytes[..cut], Fault::Cut(cut), &what, true);
    }
    // raw-frame reader: a flipped bit in the BODY of a frame (behind the header's own CRC-8, up to and
    // including the CRC-16) makes that frame's `read()` return an error - the damaged frame is not
    // silently dropped in favour of the next one.  (Header damage is different by design: a header
    // that fails its CRC-8 is not a frame start at all for a reader that resynchronises.)
    raw_body_flips(rep, c);
    // MD5 field: every single-bit flip of the 16 digest bytes must not verify
    if c.md5_present && thorough || c.md5_present && c.bytes.len() < 700 {
        for pos in 26..42 {
            for bit in 0..8 {
                work[pos] ^= 1 << bit;
                rep.eval();
                match mon::guard(|| verify_bytes(&work)) {
                    Ok(Ok(Verified::MD5Match)) => rep.violation(
                        "silent-accept",
                        "verify-false-match",
                        format!("{}: verify_reader reports MD5Match with digest bit {bit} of byte {pos} flipped", c.label),
                        J::obj().set("altered", J::hex(&work)),
                    ),
                    Ok(Ok(v)) => rep.count("verify_md5_flip", format!("{v:?}")),
                    Ok(Err(e)) => rep.count("verify_md5_flip", format!("error:{}", err_name(&e))),
                    Err(p) => rep.violation("panic", format!("verify:{}", p.signature()), p.msg.clone(), J::Null),
                }
                work[pos] ^= 1 << bit;
            }
        }
    }
}

/// Must-reject classes generated with valid checksums, in first / middle / last frame.
pub fn must_reject_cases(rep: &mut Report, rng: &mut Rng, count: usize) {
    let knobs = |s: u8, rng: &mut Rng| -> Vec<Malform> {
        vec![
            Malform::BsCode0,
            Malform::RateCode15,
            Malform::ChCode(11 + rng.below(5) as u8),
            Malform::BpsCode3,
            Malform::NumberLeadInvalid,
            Malform::NumberContInvalid,
            Malform::RateMismatch,
            Malform::ChannelsMismatch,
            Malform::BpsMismatch,
            Malform::Crc8Wrong,
            Malform::Crc16Wrong,
            Malform::SubPadBit(s),
            // every reserved subframe type code: 00001x, 0001xx, 001101-001111, 01xxxx
            Malform::SubReservedType(s, *rng.pick(&[2u8, 3, 4, 5, 6, 7, 13, 14, 15, 16, 17, 18, 19, 20, 21, 22, 23, 24, 25, 26, 27, 28, 29, 30, 31])),
            Malform::WastedGeBps(s),
            Malform::Precision15(s),
            Malform::NegativeShift(s),
            Malform::Method(s, 2 + rng.below(2) as u8),
            Malform::PartOrderNotDividing(s),
            Malform::PartOrderTooLarge(s),
            Malform::PartOrderHuge(s),
            Malform::OrderGtBlock(s),
            Malform::Truncate(rng.usize(1, 999) as u16),
        ]
    };
    for _ in 0..count {
        // a small fixed-blocksize stream with 3 frames; malform one of them
        let ch = rng.usize(1, 2) as u8;
        let bps = *rng.pick(&[8u8, 12, 16, 20, 24]);
        let mut params = StreamParams::simple(ch, bps, *rng.pick(&[44100u32, 48000, 12345]));
        params.total_known = rng.chance(3, 4);
        let bs = *rng.pick(&[16usize, 24, 32, 64]);
        let total = bs * 2 + rng.usize(1, bs);
        let mut r2 = Rng::new(rng.next());
        let pcm = flacref::dec::deinterleave(&flacref::pcm::generate(flacref::pcm::Signal::SmoothRandomWalk, ch as usize, bps as u32, total, &mut r2), ch as usize);
        let blocks = vec![bs, bs, total - 2 * bs];
        let fi = rng.below(3) as usize;
        let s = rng.below(ch as u64) as u8;
        let ks = knobs(s, rng);
        let m = *rng.pick(&ks);
        let mut plans: Vec<FramePlan> = blocks.iter().map(|b| random_frame_plan(rng, &params, *b)).collect();
        // knob-specific requirements
        for (i, p) in plans.iter_mut().enumerate() {
            p.rate_coding = RateCoding::Auto;
            if i == fi {
                for sp in p.subs.iter_mut() {
                    match m {
                        Malform::Precision15(_) | Malform::NegativeShift(_) => {
                            sp.kind = flacref::dec::SubKind::Lpc(rng.usize(1, 6) as u8);
                            sp.precision = rng.usize(3, 12) as u8;
                            sp.shift = rng.usize(0, 6) as u8;
                            sp.coefs = guess_lpc(6, sp.precision, sp.shift, rng, 3);
                        }
                        Malform::Method(..) | Malform::PartOrderNotDividing(_) | Malform::PartOrderTooLarge(_) | Malform::PartOrderHuge(_) => {
                            sp.kind = flacref::dec::SubKind::Fixed(rng.usize(1, 4) as u8);
                        }
                        Malform::OrderGtBlock(_) => {
                            sp.kind = flacref::dec::SubKind::Lpc(32);
                            sp.precision = 4;
                            sp.coefs = vec![1; 32];
                        }
                        // a reserved code that differs from a legal one in a single bit sits on a
                        // body of the legal kind it resembles, so that a decoder which ignores that
                        // bit would decode the frame without noticing anything
                        Malform::SubReservedType(_, c) if (24..=28).contains(&c) || (16..=20).contains(&c) => sp.kind = flacref::dec::SubKind::Fixed(c & 7),
                        Malform::SubReservedType(_, 2) | Malform::SubReservedType(_, 4) | Malform::SubReservedType(_, 16) => sp.kind = flacref::dec::SubKind::Constant,
                        Malform::SubReservedType(_, 3) | Malform::SubReservedType(_, 5) | Malform::SubReservedType(_, 17) => sp.kind = flacref::dec::SubKind::Verbatim,
                        _ => {}
                    }
                }
                if matches!(m, Malform::OrderGtBlock(_)) && p.block_size >= 32 {
                    // needs a block smaller than the order
                }
                p.malform = Some(m);
            }
        }
        if matches!(m, Malform::OrderGtBlock(_)) && blocks[fi] >= 32 {
            continue;
        }
        let g = build_stream(&params, &pcm, &plans);
        // clean reference for the prefix rule
        let clean_plans: Vec<FramePlan> = plans.iter().map(|p| FramePlan { malform: None, ..p.clone() }).collect();
        let clean = build_stream(&params, &pcm, &clean_plans);
        let d = match decode_file(&clean.bytes, &Rules::LENIENT) {
            Ok(d) => d,
            Err(_) => continue,
        };
        let corpus = corpus_from(format!("must-reject {m:?} in frame {fi}"), clean.bytes.clone(), &d);
        rep.eval();
        rep.case_begin(&corpus.label);
        // adjudicate: the malformed file must really be invalid under every reading
        if decode_file(&g.bytes, &Rules::LENIENT).is_ok() {
            rep.count("must_reject_class", format!("{}:not-actually-invalid", knob_name(m)));
            continue;
        }
        rep.count("must_reject_class", knob_name(m));
        rep.nontrivial(fnv(&g.bytes));
        let what = format!("must-reject {m:?} in frame {fi} of 3");
        let all_err = judge_altered(rep, &corpus, &g.bytes, Fault::MustReject, &what, true);
        if all_err {
            rep.count("must_reject_outcome", "rejected");
        }
    }
}

fn knob_name(m: Malform) -> String {
    let s = format!("{m:?}");
    s.split('(').next().unwrap_or("").to_string()
}

/// STREAMINFO-inconsistency classes: block larger than the declared maximum,
/// more samples than the declared total, short non-final block.
pub fn streaminfo_reject_cases(rep: &mut Report, rng: &mut Rng, count: usize) {
    for i in 0..count {
        let ch = rng.usize(1, 2) as u8;
        let bps = *rng.pick(&[8u8, 16, 24]);
        let mut params = StreamParams::simple(ch, bps, 44100);
        let bs = *rng.pick(&[16usize, 32, 64]);
        let mut r2 = Rng::new(rng.next());
        let class = if i % 9 == 8 { 3 } else { i % 3 };
        let blocks = match class {
            2 => vec![bs, rng.usize(1, 14), bs],
            // a short block followed by exactly 65536 more samples: "samples still to come" and the
            // block's own size agree in their low 16 bits
            3 => {
                let mut v = vec![bs, rng.usize(1, 14)];
                v.extend(std::iter::repeat(4096).take(16 * rng.usize(1, 2)));
                v
            }
            _ => vec![bs, bs, rng.usize(1, bs)],
        };
        if class >= 2 {
            params.variable = true;
        }
        let total: usize = blocks.iter().sum();
        let pcm = flacref::dec::deinterleave(&flacref::pcm::generate(flacref::pcm::Signal::Sine, ch as usize, bps as u32, total, &mut r2), ch as usize);
        let plans: Vec<FramePlan> = blocks.iter().map(|b| random_frame_plan(rng, &params, *b)).collect();
        let g = build_stream(&params, &pcm, &plans);
        let d = match decode_file(&g.bytes, &Rules::LENIENT) {
            Ok(d) => d,
            Err(_) => continue,
        };
        let mut b = g.bytes.clone();
        let mut si = d.info.clone();
        let name = match class {
            0 => {
                si.max_block = (bs as u16) - 1;
                si.min_block = si.min_block.min(si.max_block);
                "block-gt-streaminfo-max"
            }
            1 => {
                // the final block must genuinely overshoot the declared total
                // (a total that ends exactly on a frame boundary just ends the stream early)
                if blocks[2] < 2 {
                    continue;
                }
                si.total = (total - rng.usize(1, blocks[2] - 1)) as u64;
                "more-samples-than-total"
            }
            3 => "short-nonfinal-block-before-64k",
            _ => "short-nonfinal-block",
        };
        b[8..42].copy_from_slice(&si.to_bytes());
        // md5 off: the digest would no longer describe the stream; irrelevant here
        let corpus = corpus_from(format!("must-reject {name}"), g.bytes.clone(), &d);
        rep.eval();
        rep.case_begin(&corpus.label);
        rep.count("must_reject_class", name);
        rep.nontrivial(fnv(&b));
        // these three are invalid by construction (the lenient validator does not look at max_block / short blocks)
        let mut all_err = true;
        for kind in KINDS {
            let dd = match mon::guard(|| decode_all(std::io::Cursor::new(&b[..]), kind, 4096)) {
                Ok(d) => d,
                Err(p) => {
                    rep.violation("panic", p.signature(), format!("{name}: {kind:?}: {} at {}", p.msg, p.location), J::obj().set("class", name).set("altered", J::hex(&b)));
                    continue;
                }
            };
            let n = dd.samples.len();
            let is_prefix = n <= corpus.pcm.len() && dd.samples[..] == corpus.pcm[..n];
            let on_boundary = corpus.boundaries.binary_search(&n).is_ok();
            let replay = J::obj().set("class", name).set("altered", J::hex(&b)).set("reader", format!("{kind:?}"));
            match &dd.error {
                None => {
                    all_err = false;
                    rep.violation("silent-accept", format!("silent-accept:must-reject:{name}"), format!("{name}: {kind:?} decoded {n} samples without any error"), replay);
                }
                Some(e) => {
                    rep.count("error_variant", err_name(e));
                    if !(is_prefix && on_boundary) {
                        rep.violation("corrupt-delivery", format!("non-prefix-before-error:{kind:?}"), format!("{name}: {kind:?} delivered {n} samples, not a whole-frame prefix"), replay);
                    }
                }
            }
        }
        if all_err {
            rep.count("must_reject_outcome", "rejected");
        }
    }
}

pub fn run(ctx: &Ctx, rep: &mut Report) {
    if let Some(path) = &ctx.replay {
        let text = std::fs::read_to_string(path).expect("replay file");
        let j = crate::json::parse(&text).expect("json");
        let r = j.get("replay").unwrap_or(&j);
        if let (Some(orig), Some(alt)) = (r.get("original").and_then(|x| x.unhex()), r.get("altered").and_then(|x| x.unhex())) {
            if let Ok(d) = decode_file(&orig, &Rules::LENIENT) {
                let c = corpus_from("replay".into(), orig, &d);
                judge_altered(rep, &c, &alt, Fault::Flip(0), r.get("fault").and_then(|x| x.as_str()).unwrap_or("replay"), true);
            }
        } else if let Some(alt) = r.get("altered").and_then(|x| x.unhex()) {
            for kind in KINDS {
                let d = decode_all(std::io::Cursor::new(&alt[..]), kind, 4096);
                eprintln!("{kind:?}: {} samples, error {:?}", d.samples.len(), d.error);
            }
        }
        for v in &rep.violations {
            eprintln!("VIOLATION-DETAIL {} {}: {}", v.kind, v.sig, v.detail);
        }
        if rep.violations.is_empty() {
            eprintln!("replay: no violation reproduced");
        }
        return;
    }
    // corpus size: quick 64 files, thorough 2048 (spread over the shards)
    let nfiles: u64 = if ctx.thorough { 4096 } else { 256 };
    let mut made = 0u64;
    let mut idx = 0u64;
    while made < nfiles {
        idx += 1;
        let mut r = flacref::rng::Rng::new(ctx.seed.wrapping_mul(7919) ^ idx.wrapping_mul(0x9E3779B97F4A7C15));
        let c = match make_corpus(&mut r, idx) {
            Some(c) if c.bytes.len() <= 2200 && c.boundaries.len() >= 2 => c,
            _ => {
                if idx > nfiles * 20 {
                    break;
                }
                continue;
            }
        };
        made += 1;
        if ctx.mine(made) {
            run_corpus_file(rep, &c, ctx.thorough);
        }
    }
    rep.exhaustive = Some(true);
    rep.notes.push(format!("corpus: {made} files; per file every single-bit flip of every frame byte and every truncation length was enumerated"));
    let mut rng = ctx.rng(0xC05);
    must_reject_cases(rep, &mut rng, if ctx.thorough { 3000 } else { 400 });
    streaminfo_reject_cases(rep, &mut rng, if ctx.thorough { 300 } else { 45 });
}
