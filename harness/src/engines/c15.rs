//! C15 — constructors validate (never panic; every documented value works) and
//! the declared-length contract holds for under-, exact- and over-filling histories.

use crate::api::*;
use crate::json::J;
use crate::mon;
use crate::report::{hash_str, Report};
use crate::Ctx;
use flac_codec::encode::{FlacByteWriter, FlacChannelWriter, FlacSampleWriter, FlacStreamWriter, Options};
use flacref::rng::Rng;
use std::io::{Cursor, Write};

const DEPTHS: [u32; 17] = [0, 1, 2, 3, 4, 7, 8, 9, 12, 16, 17, 24, 31, 32, 33, 64, u32::MAX];
const CHANNELS: [u8; 12] = [0, 1, 2, 3, 4, 5, 6, 7, 8, 9, 128, 255];
const RATES: [u32; 13] = [0, 1, 44100, 65535, 65536, 655350, 655360, 705600, 1000000, 1048570, (1 << 20) - 1, 1 << 20, u32::MAX];
const BLOCKS: [u16; 6] = [0, 15, 16, 17, 4096, 65535];
const LPCS: [Option<u8>; 8] = [None, Some(0), Some(1), Some(12), Some(31), Some(32), Some(33), Some(255)];
const PARTS: [u32; 6] = [0, 1, 8, 15, 16, u32::MAX];
const PADS: [Option<u32>; 5] = [None, Some(0), Some(1), Some((1 << 24) - 1), Some(1 << 24)];

fn legal(bps: u32, ch: u8, rate: u32) -> bool {
    (1..=32).contains(&bps) && (1..=8).contains(&ch) && rate < (1 << 20)
}

#[derive(Debug, Clone)]
struct Opt {
    block: u16,
    lpc: Option<u8>,
    part: u32,
    pad: Option<u32>,
}

fn opt_legal(o: &Opt) -> bool {
    o.block >= 16 && o.lpc.map(|l| (1..=32).contains(&l)).unwrap_or(true) && o.part <= 15 && o.pad.map(|p| p < (1 << 24)).unwrap_or(true)
}

fn build_options(o: &Opt) -> Result<Options, String> {
    let mut x = Options::default().block_size(o.block).map_err(|e| crate::api::show(&e))?;
    x = x.max_lpc_order(o.lpc).map_err(|e| crate::api::show(&e))?;
    x = x.max_partition_order(o.part).map_err(|e| crate::api::show(&e))?;
    if let Some(p) = o.pad {
        x = x.padding(p).map_err(|e| crate::api::show(&e))?;
    }
    Ok(x)
}

/// writes a short signal through the constructed writer, finalizes and round-trips
fn works(front: Front, o: &Opt, bps: u32, ch: u8, rate: u32, declared: bool) -> Result<(), String> {
    let frames = 40usize;
    let mut r = Rng::new(hash_str(&format!("{front:?}{o:?}{bps}{ch}{rate}")));
    let pcm = flacref::pcm::generate(flacref::pcm::Signal::NoiseLow, ch as usize, bps, frames, &mut r);
    // a third of the writers are handed a sink that already holds foreign data and is positioned
    // behind it (the stream then starts at that offset; finalize must come back to it)
    let start = if hash_str(&format!("{o:?}{bps}{ch}{rate}{declared}")) % 3 == 0 { 29usize } else { 0 };
    let mut c = Cursor::new(vec![0xA7u8; start]);
    c.set_position(start as u64);
    let opts = build_options(o)?;
    let e = |s: &str, e: flac_codec::Error| format!("{s}: {e:?}");
    match front {
        Front::Sample => {
            let mut w = FlacSampleWriter::new(&mut c, opts, rate, bps, ch, declared.then_some(pcm.len() as u64)).map_err(|x| e("new", x))?;
            w.write(&pcm).map_err(|x| e("write", x))?;
            w.finalize().map_err(|x| e("finalize", x))?;
        }
        Front::ByteLE | Front::ByteBE => {
            let bytes = flacref::pcm::to_bytes(&pcm, bps, false);
            let mut w = FlacByteWriter::endian(&mut c, flac_codec::byteorder::LittleEndian, opts, rate, bps, ch, declared.then_some(bytes.len() as u64)).map_err(|x| e("new", x))?;
            w.write_all(&bytes).map_err(|x| format!("write: {x:?}"))?;
            w.finalize().map_err(|x| e("finalize", x))?;
        }
        Front::Channel => {
            let mut w = FlacChannelWriter::new(&mut c, opts, rate, bps, ch, declared.then_some(frames as u64)).map_err(|x| e("new", x))?;
            let chans = flacref::dec::deinterleave(&pcm, ch as usize);
            w.write(&chans).map_err(|x| e("write", x))?;
            w.finalize().map_err(|x| e("finalize", x))?;
        }
    }
    let bytes = c.into_inner();
    if bytes.len() < start || bytes[..start].iter().any(|b| *b != 0xA7) {
        return Err("foreign data in front of the stream was modified".into());
    }
    let d = decode_all(Cursor::new(&bytes[start..]), Rd::SampleRead, 4096);
    if let Some(er) = d.error {
        return Err(format!("round trip decode: {er}"));
    }
    if d.samples != pcm {
        return Err("round trip mismatch".into());
    }
    // declared or not, the finished header records the final count
    if d.meta.as_ref().and_then(|m| m.total) != Some(frames as u64) {
        return Err(format!("final count not recorded: STREAMINFO total {:?}, {frames} PCM frames were written (stream at offset {start})", d.meta.as_ref().and_then(|m| m.total)));
    }
    Ok(())
}

fn grid(ctx: &Ctx, rep: &mut Report) {
    let mut idx = 0u64;
    let option_sets: Vec<Opt> = {
        let mut v = vec![];
        for block in BLOCKS {
            for lpc in LPCS {
                v.push(Opt { block, lpc, part: 5, pad: None });
            }
            for part in PARTS {
                v.push(Opt { block, lpc: Some(8), part, pad: None });
            }
            for pad in PADS {
                v.push(Opt { block, lpc: None, part: 0, pad });
            }
        }
        v
    };
    rep.notes.push(format!(
        "constructor grid: {} depths x {} channel counts x {} rates x {} option sets x 3 front-ends x declared/undeclared",
        DEPTHS.len(),
        CHANNELS.len(),
        RATES.len(),
        option_sets.len()
    ));
    for bps in DEPTHS {
        for ch in CHANNELS {
            for rate in RATES {
                for (oi, o) in option_sets.iter().enumerate() {
                    idx += 1;
                    if !ctx.mine(idx) {
                        continue;
                    }
                    // in the quick tier thin out the option sets for illegal stream parameters
                    if !ctx.thorough && !legal(bps, ch, rate) && oi % 7 != (idx % 7) as usize {
                        continue;
                    }
                    let front = [Front::Sample, Front::ByteLE, Front::Channel][(idx % 3) as usize];
                    let declared = idx % 2 == 0;
                    rep.eval();
                    let all_legal = legal(bps, ch, rate) && opt_legal(o);
                    rep.count("grid_point", if all_legal { "documented-legal" } else { "out-of-range" });
                    rep.case_begin(&format!("grid bps {bps} ch {ch} rate {rate} {o:?} {front:?} declared {declared}"));
                    // constructors get the raw values:
                    let raw = mon::observe(|| -> Result<(), String> {
                        let opts = build_options(o)?;
                        let mut c = Cursor::new(Vec::new());
                        match front {
                            Front::Sample => FlacSampleWriter::new(&mut c, opts, rate, bps, ch, declared.then_some(40 * ch.max(1) as u64)).map(|_| ()).map_err(|e| crate::api::show(&e)),
                            Front::Channel => FlacChannelWriter::new(&mut c, opts, rate, bps, ch, declared.then_some(40)).map(|_| ()).map_err(|e| crate::api::show(&e)),
                            _ => FlacByteWriter::endian(&mut c, flac_codec::byteorder::LittleEndian, opts, rate, bps, ch, declared.then_some(40 * ch.max(1) as u64 * (bps.clamp(1, 32).div_ceil(8)) as u64))
                                .map(|_| ())
                                .map_err(|e| crate::api::show(&e)),
                        }
                    });
                    let replay = || J::obj().set("bps", bps).set("channels", ch).set("rate", rate).set("options", format!("{o:?}")).set("front", format!("{front:?}")).set("declared", declared);
                    match raw.result {
                        Err(p) => rep.violation("panic", format!("constructor:{}", p.signature()), format!("constructor panicked for bps {bps} ch {ch} rate {rate} {o:?}: {} at {}", p.msg, p.location), replay()),
                        Ok(Err(e)) => {
                            rep.count("constructor_outcome", "err");
                            if all_legal {
                                rep.violation("legal-refused", format!("legal-refused:{}", crate::api::err_name(&e)), format!("documented-legal parameters refused: bps {bps} ch {ch} rate {rate} {o:?} {front:?}: {e}"), replay());
                            }
                        }
                        Ok(Ok(())) => rep.count("constructor_outcome", "ok"),
                    }
                    if all_legal {
                        // documented-legal point: the writer must also work end to end
                        let obs = mon::observe(|| works(front, o, bps.clamp(1, 32), ch.clamp(1, 8), rate, declared).map(|_| ()).map_err(|e| e));
                        match obs.result {
                            Err(p) => rep.violation("panic", format!("legal-writer:{}", p.signature()), format!("writer for documented-legal parameters panicked: {} at {}", p.msg, p.location), replay()),
                            Ok(Err(e)) => rep.violation("legal-broken", format!("legal-writer-does-not-work:{}", e.split(':').next().unwrap_or("")), format!("bps {bps} ch {ch} rate {rate} {o:?} {front:?}: {e}"), replay()),
                            Ok(Ok(())) => {
                                rep.count("legal_writer", "works");
                                rep.nontrivial(hash_str(&format!("{bps}/{ch}/{rate}/{o:?}/{front:?}/{declared}")));
                            }
                        }
                    }
                }
            }
        }
    }
    // totals: boundary values
    let mut tidx = 0u64;
    for total in [0u64, 1, 2, 3, 7, (1 << 36) - 1, 1 << 36, (1 << 36) + 1, u64::MAX] {
        for ch in [0u8, 1, 2, 3, 8, 9, 255] {
            for front in [Front::Sample, Front::ByteLE, Front::Channel] {
                tidx += 1;
                if !ctx.mine(tidx) {
                    continue;
                }
                rep.eval();
                rep.count("grid_point", "declared-total-boundary");
                let r = mon::guard(|| {
                    let mut c = Cursor::new(Vec::new());
                    let o = Options::default().no_seektable();
                    match front {
                        Front::Sample => FlacSampleWriter::new(&mut c, o, 44100, 16, ch, Some(total)).map(|_| ()).map_err(|e| crate::api::show(&e)),
                        Front::Channel => FlacChannelWriter::new(&mut c, o, 44100, 16, ch, Some(total)).map(|_| ()).map_err(|e| crate::api::show(&e)),
                        _ => FlacByteWriter::endian(&mut c, flac_codec::byteorder::LittleEndian, o, 44100, 16, ch, Some(total)).map(|_| ()).map_err(|e| crate::api::show(&e)),
                    }
                });
                if let Err(p) = r {
                    rep.violation("panic", format!("constructor:{}", p.signature()), format!("declared total {total} ch {ch} {front:?}: {}", p.msg), J::obj().set("total", total).set("channels", ch));
                }
            }
        }
    }
    // declared totals that ask for as many seek points as a SEEKTABLE can hold (932067), one less, one more
    let mut lidx = 0u64;
    for total_frames in [14_913_055u64, 14_913_056, 14_913_071, 14_913_072, 14_913_073, 14_913_088, 30_000_000, 1 << 33] {
        for front in [Front::Sample, Front::ByteLE, Front::Channel] {
            lidx += 1;
            if !ctx.mine(lidx) {
                continue;
            }
            rep.eval();
            rep.count("grid_point", "seek-table-capacity");
            let r = mon::guard(|| {
                let mut c = Cursor::new(Vec::new());
                let o = Options::default().block_size(16).map_err(|e| crate::api::show(&e))?.seektable_frames(1);
                match front {
                    Front::Sample => FlacSampleWriter::new(&mut c, o, 44100, 16, 1, Some(total_frames)).map(|_| ()).map_err(|e| crate::api::show(&e)),
                    Front::Channel => FlacChannelWriter::new(&mut c, o, 44100, 16, 1, Some(total_frames)).map(|_| ()).map_err(|e| crate::api::show(&e)),
                    _ => FlacByteWriter::endian(&mut c, flac_codec::byteorder::LittleEndian, o, 44100, 16, 1, Some(total_frames * 2)).map(|_| ()).map_err(|e| crate::api::show(&e)),
                }
            });
            match r {
                Err(p) => rep.violation("panic", format!("constructor:{}", p.signature()), format!("declared total {total_frames} with block size 16 and a seek point per frame, {front:?}: {}", p.msg), J::obj().set("total", total_frames).set("front", format!("{front:?}"))),
                Ok(Err(e)) => rep.violation("legal-refused", format!("legal-refused:{}", crate::api::err_name(&e)), format!("documented-legal parameters refused (declared total {total_frames}, block 16, seek point per frame): {e}"), J::obj().set("total", total_frames)),
                Ok(Ok(())) => rep.count("constructor_outcome", "ok"),
            }
        }
    }
    // stream writer parameters
    let mut sidx = 0u64;
    for bps in DEPTHS {
        for ch in CHANNELS {
            for rate in RATES {
                for n in [0usize, 1, 15, 16, 65535, 65536] {
                    sidx += 1;
                    if !ctx.mine(sidx) || (!ctx.thorough && sidx % 5 != 0) {
                        continue;
                    }
                    rep.eval();
                    rep.count("grid_point", "stream-writer");
                    let r = mon::guard(|| {
                        let mut out = Vec::new();
                        let mut w = FlacStreamWriter::new(&mut out, Options::default());
                        let samples = vec![0i32; n * ch.clamp(1, 8) as usize];
                        w.write(rate, ch, bps, &samples).map_err(|e| crate::api::show(&e))
                    });
                    if let Err(p) = r {
                        rep.violation("panic", format!("stream-writer:{}", p.signature()), format!("FlacStreamWriter::write(rate {rate}, ch {ch}, bps {bps}, {n} frames): {} at {}", p.msg, p.location), J::obj().set("bps", bps).set("channels", ch).set("rate", rate).set("frames", n));
                    }
                }
            }
        }
    }
}

/// Declared-length automaton: (declared N, written M) in 1..5 write calls.
fn declared_length(rep: &mut Report, rng: &mut Rng) {
    let ch = rng.usize(1, 3) as u8;
    let bps = *rng.pick(&[8u32, 16, 24]);
    let block = *rng.pick(&[16u16, 32, 256, 4096]);
    let n = match rng.below(4) {
        0 => rng.usize(1, 40),
        1 => block as usize * rng.usize(1, 3),
        2 => block as usize * rng.usize(1, 3) + rng.usize(1, block as usize - 1),
        _ => rng.usize(1, 3 * block as usize),
    }; // declared PCM frames
    let relation = rng.below(4);
    let m = match relation {
        0 => n,
        1 => n - rng.usize(1, n).min(n), // under (possibly 0)
        2 => n + rng.usize(1, 3),
        _ => n + rng.usize(1, 2 * block as usize),
    };
    let front = *rng.pick(&[Front::Sample, Front::ByteLE, Front::ByteBE, Front::Channel]);
    // half of the under-filling histories stop on a block boundary and end with stray units short of
    // one PCM frame (samples for the sample writer, bytes for the byte writers): nothing whole is left
    // buffered, the stray data is not audio, and finalize still has to report the shortfall
    let unit_len = match front {
        Front::Sample => ch as usize,
        Front::ByteLE | Front::ByteBE => ch as usize * bps.div_ceil(8) as usize,
        Front::Channel => 1,
    };
    let (m, stray) = if relation == 1 && unit_len > 1 && rng.chance(1, 2) { (block as usize * rng.usize(0, (n - 1) / block as usize), rng.usize(1, unit_len - 1)) } else { (m, 0) };
    let mut r2 = Rng::new(rng.next());
    let pcm = flacref::pcm::generate(flacref::pcm::Signal::NoiseLow, ch as usize, bps, m, &mut r2);
    let calls = rng.usize(1, 5);
    // split m frames over `calls` calls
    let mut cuts: Vec<usize> = (0..calls - 1).map(|_| rng.usize(0, m)).collect();
    cuts.sort_unstable();
    let mut splits = vec![];
    let mut prev = 0;
    for c in cuts {
        splits.push(c - prev);
        prev = c;
    }
    splits.push(m - prev);
    rep.eval();
    let rel = match m.cmp(&n) {
        std::cmp::Ordering::Equal => "exact",
        std::cmp::Ordering::Less => "under",
        std::cmp::Ordering::Greater => "over",
    };
    rep.count("declared_length_history", rel);
    if stray > 0 {
        rep.count("declared_length_history", "under + stray partial frame on a block boundary");
    }
    rep.case_begin(&format!("declared {n} written {m} ch {ch} bps {bps} block {block} {front:?} splits {splits:?}"));
    let bytes_per = bps.div_ceil(8) as usize;
    let obs = mon::observe(|| -> (Vec<Result<(), String>>, Result<(), String>, Vec<u8>) {
        let mut c = Cursor::new(Vec::new());
        let opts = Options::default().block_size(block).unwrap().seektable_frames(1);
        let mut results = vec![];
        let fin;
        match front {
            Front::Sample => {
                let mut w = FlacSampleWriter::new(&mut c, opts, 44100, bps, ch, Some((n * ch as usize) as u64)).expect("legal constructor");
                let mut pos = 0;
                for s in &splits {
                    let a = pos * ch as usize;
                    let b = (pos + s) * ch as usize;
                    results.push(w.write(&pcm[a..b]).map_err(|e| crate::api::show(&e)));
                    pos += s;
                }
                if stray > 0 {
                    results.push(w.write(&vec![1i32; stray]).map_err(|e| crate::api::show(&e)));
                }
                fin = w.finalize().map_err(|e| crate::api::show(&e));
            }
            Front::ByteLE | Front::ByteBE => {
                let bytes = flacref::pcm::to_bytes(&pcm, bps, false);
                let unit = ch as usize * bytes_per;
                let mut w = FlacByteWriter::endian(&mut c, flac_codec::byteorder::LittleEndian, opts, 44100, bps, ch, Some((n * unit) as u64)).expect("legal constructor");
                let mut pos = 0;
                for s in &splits {
                    results.push(w.write_all(&bytes[pos * unit..(pos + s) * unit]).map_err(|e| format!("Io({e:?})")));
                    pos += s;
                }
                if stray > 0 {
                    results.push(w.write_all(&vec![0x5Au8; stray]).map_err(|e| format!("Io({e:?})")));
                }
                fin = w.finalize().map_err(|e| crate::api::show(&e));
            }
            Front::Channel => {
                let chans = flacref::dec::deinterleave(&pcm, ch as usize);
                let mut w = FlacChannelWriter::new(&mut c, opts, 44100, bps, ch, Some(n as u64)).expect("legal constructor");
                let mut pos = 0;
                for s in &splits {
                    let part: Vec<&[i32]> = chans.iter().map(|x| &x[pos..pos + s]).collect();
                    results.push(w.write(&part).map_err(|e| crate::api::show(&e)));
                    pos += s;
                }
                fin = w.finalize().map_err(|e| crate::api::show(&e));
            }
        }
        (results, fin, c.into_inner())
    });
    let replay = || J::obj().set("declared_frames", n).set("written_frames", m).set("channels", ch).set("bps", bps).set("block", block as u32).set("front", format!("{front:?}")).set("splits", J::Arr(splits.iter().map(|s| J::from(*s)).collect())).set("stray_units", stray);
    match obs.result {
        Err(p) => rep.violation("panic", p.signature(), format!("declared {n} written {m}: {} at {}", p.msg, p.location), replay()),
        Ok((writes, fin, bytes)) => {
            let any_write_err = writes.iter().any(|r| r.is_err());
            let overall_ok = !any_write_err && fin.is_ok();
            match rel {
                "exact" => {
                    if !overall_ok {
                        rep.violation("contract", "exact-fill-refused", format!("declared {n}, wrote exactly {n}: writes {writes:?} finalize {fin:?}"), replay());
                    } else {
                        match flacref::dec::decode_file(&bytes, &flacref::dec::Rules::STRICT) {
                            Ok(d) if d.info.total == n as u64 && d.interleaved() == pcm => {
                                rep.nontrivial(hash_str(&format!("{n}/{m}/{ch}/{bps}/{block}/{front:?}/{splits:?}")));
                            }
                            Ok(d) => rep.violation("contract", "exact-fill-wrong-file", format!("total {} frames {}", d.info.total, d.frames.len()), replay()),
                            Err(e) => rep.violation("nonconforming", format!("refdec:{}", e.rule), format!("{e}"), replay()),
                        }
                    }
                }
                "under" => {
                    if fin.is_ok() && !any_write_err {
                        rep.violation("contract", "under-fill-accepted", format!("declared {n}, wrote {m}: finalize returned Ok"), replay());
                    } else {
                        rep.nontrivial(hash_str(&format!("{n}/{m}/{ch}/{bps}/{block}/{front:?}/{splits:?}")));
                    }
                }
                _ => {
                    if overall_ok {
                        rep.violation("contract", "over-fill-accepted", format!("declared {n}, wrote {m} in {} calls (block {block}): every write and finalize returned Ok", splits.len()), replay());
                    } else {
                        rep.nontrivial(hash_str(&format!("{n}/{m}/{ch}/{bps}/{block}/{front:?}/{splits:?}")));
                    }
                }
            }
            rep.count("declared_length_outcome", format!("{rel}:{}", if overall_ok { "ok" } else if any_write_err { "write-error" } else { "finalize-error" }));
        }
    }
    rep.sample(|| replay());
}

/// Undeclared total: the final count is recorded.
fn undeclared(rep: &mut Report, rng: &mut Rng) {
    let mut cfg = EncCfg::random(rng);
    cfg.declare_total = false;
    cfg.block_size = *rng.pick(&[16u16, 64, 256]);
    let frames = rng.usize(1, 900);
    let mut r2 = Rng::new(rng.next());
    let pcm = flacref::pcm::generate(flacref::pcm::Signal::NoiseLow, cfg.channels as usize, cfg.bps, frames, &mut r2);
    rep.eval();
    rep.count("declared_length_history", "undeclared");
    match mon::guard(|| encode(&cfg, *rng.pick(&FRONTS), &pcm)) {
        Ok(Ok(b)) => match flacref::dec::decode_file(&b, &flacref::dec::Rules::STRICT) {
            Ok(d) if d.info.total == frames as u64 => {}
            Ok(d) => rep.violation("contract", "undeclared-total-not-recorded", format!("wrote {frames} frames, STREAMINFO says {}", d.info.total), J::obj().set("cfg", cfg.to_json())),
            Err(e) => rep.violation("nonconforming", format!("refdec:{}", e.rule), format!("{e}"), J::obj().set("cfg", cfg.to_json())),
        },
        Ok(Err(e)) => rep.violation("encode-error", format!("encode-error:{}", err_name(&e.err)), crate::api::show(&e), J::obj().set("cfg", cfg.to_json())),
        Err(p) => rep.violation("panic", p.signature(), p.msg.clone(), J::obj().set("cfg", cfg.to_json())),
    }
}

pub fn run(ctx: &Ctx, rep: &mut Report) {
    if ctx.replay.is_some() {
        let text = std::fs::read_to_string(ctx.replay.as_ref().unwrap()).expect("replay");
        eprintln!("C15 replay: recorded case:\n{}", &text[..text.len().min(2000)]);
        return;
    }
    grid(ctx, rep);
    let mut rng = ctx.rng(0xC15);
    let mut i = 0;
    while i < 200 || ctx.time_left() {
        declared_length(rep, &mut rng);
        if i % 5 == 0 {
            undeclared(rep, &mut rng);
        }
        i += 1;
    }
}
