//! C08 — the finished file depends only on PCM + options: not on how the input
//! was split over write calls, which front-end / byte order supplied it, or the run.

use super::common::*;
use crate::api::*;
use crate::json::J;
use crate::mon;
use crate::report::{fnv, hash_str, Report};
use crate::Ctx;
use flacref::pcm::Signal;
use flacref::rng::Rng;

fn enc_split(cfg: &EncCfg, front: Front, pcm: &[i32], splits: &[usize]) -> Result<Vec<u8>, EncErr> {
    let mut c = std::io::Cursor::new(Vec::new());
    encode_into(&mut c, cfg, front, pcm, splits)?;
    Ok(c.into_inner())
}

fn replay_json(cfg: &EncCfg, front: Front, pcm: &[i32], splits: &[usize]) -> J {
    J::obj()
        .set("cfg", cfg.to_json())
        .set("front", format!("{front:?}"))
        .set("pcm", pcm_json(pcm))
        .set("splits", J::Arr(splits.iter().map(|s| J::from(*s)).collect()))
}

/// unit count of `pcm` in the front-end's own unit
fn units(cfg: &EncCfg, front: Front, pcm: &[i32]) -> usize {
    match front {
        Front::Sample => pcm.len(),
        Front::ByteLE | Front::ByteBE => pcm.len() * cfg.bps.div_ceil(8) as usize,
        Front::Channel => pcm.len() / cfg.channels as usize,
    }
}

fn compare(rep: &mut Report, reference: &[u8], cfg: &EncCfg, front: Front, pcm: &[i32], splits: &[usize], what: &str) {
    rep.eval();
    rep.count("front", format!("{front:?}"));
    rep.count("split_calls", (splits.len() + 1).min(9));
    let obs = mon::observe(|| enc_split(cfg, front, pcm, splits));
    rep.observe_cost(obs.cpu_us, obs.peak_alloc);
    match obs.result {
        Err(p) => rep.violation("panic", format!("{}", p.signature()), format!("{what}: {} at {}", p.msg, p.location), replay_json(cfg, front, pcm, splits)),
        Ok(Err(e)) => rep.violation(
            "encode-error",
            format!("split-encode-error:{}:{}", e.stage, err_name(&e.err)),
            format!("{what}: {front:?} with splits {:?} failed at {}: {}", &splits[..splits.len().min(8)], e.stage, e.err),
            replay_json(cfg, front, pcm, splits),
        ),
        Ok(Ok(b)) => {
            if b != reference {
                let at = b.iter().zip(reference).position(|(x, y)| x != y);
                rep.violation(
                    "nondeterministic",
                    format!("output-differs:{front:?}"),
                    format!("{what}: {front:?} with splits {:?}: output ({} bytes) differs from the one-call reference ({} bytes), first difference at byte {at:?}", &splits[..splits.len().min(8)], b.len(), reference.len()),
                    replay_json(cfg, front, pcm, splits),
                );
            } else if !splits.is_empty() {
                rep.nontrivial(fnv(reference) ^ hash_str(&format!("{front:?}{splits:?}")));
            }
        }
    }
}

fn small_cfg(rng: &mut Rng) -> EncCfg {
    let mut cfg = EncCfg::random(rng);
    cfg.block_size = *rng.pick(&[16u16, 17, 24, 32]);
    cfg.channels = rng.usize(1, 3) as u8;
    cfg
}

fn run_small(rep: &mut Report, rng: &mut Rng, thorough: bool) {
    let cfg = small_cfg(rng);
    let ch = cfg.channels as usize;
    let frames = rng.usize(1, 200 / ch.max(1)).max(1);
    let sig = *rng.pick(&[Signal::NoiseLow, Signal::Sine, Signal::SmoothRandomWalk, Signal::Mixed, Signal::Wasted]);
    let mut r2 = Rng::new(rng.next());
    let pcm = flacref::pcm::generate(sig, ch, cfg.bps, frames, &mut r2);
    rep.case_begin(&format!("small {cfg:?} frames {frames}"));
    let reference = match enc_split(&cfg, Front::Sample, &pcm, &[]) {
        Ok(b) => b,
        Err(e) => {
            rep.violation("encode-error", format!("reference-encode-error:{}", err_name(&e.err)), crate::api::show(&e), replay_json(&cfg, Front::Sample, &pcm, &[]));
            return;
        }
    };
    rep.sample(|| J::obj().set("cfg", cfg.to_json()).set("pcm_frames", frames).set("reference_bytes", reference.len()).set("enumerated", "every 2-call split point for 4 front-ends; all 3-call splits when <= 40 units"));
    for front in FRONTS {
        // one call
        compare(rep, &reference, &cfg, front, &pcm, &[], "one call");
        // every split point into two calls (also mid-PCM-frame / mid-sample)
        let n = units(&cfg, front, &pcm);
        for s in 0..=n {
            compare(rep, &reference, &cfg, front, &pcm, &[s], "two calls");
        }
        // all 3-call splits for tiny inputs
        if n <= 40 || (thorough && n <= 70) {
            for a in 0..=n {
                for b in 0..=(n - a) {
                    compare(rep, &reference, &cfg, front, &pcm, &[a, b], "three calls");
                }
            }
        }
    }
    // repeated runs
    for _ in 0..2 {
        compare(rep, &reference, &cfg, Front::Sample, &pcm, &[], "repeat");
    }
    rep.count("small_inputs_with_every_split", "n");
}

fn run_large(rep: &mut Report, rng: &mut Rng) {
    let mut cfg = EncCfg::random(rng);
    cfg.block_size = *rng.pick(&[16u16, 64, 192, 256, 576, 1024]);
    let ch = cfg.channels as usize;
    let frames = cfg.block_size as usize * rng.usize(1, 5) + rng.usize(0, cfg.block_size as usize);
    let sig = *rng.pick(&flacref::pcm::ALL_SIGNALS);
    let mut r2 = Rng::new(rng.next());
    let pcm = flacref::pcm::generate(sig, ch, cfg.bps, frames.max(1), &mut r2);
    rep.case_begin(&format!("large {cfg:?} frames {frames}"));
    let reference = match enc_split(&cfg, Front::Sample, &pcm, &[]) {
        Ok(b) => b,
        Err(e) => {
            rep.violation("encode-error", format!("reference-encode-error:{}", err_name(&e.err)), crate::api::show(&e), replay_json(&cfg, Front::Sample, &pcm, &[]));
            return;
        }
    };
    for front in FRONTS {
        let n = units(&cfg, front, &pcm);
        for _ in 0..3 {
            // random chunkings including empty calls
            let mut splits = vec![];
            let mut left = n;
            let style = rng.below(4);
            while left > 0 && splits.len() < 400 {
                let s = match style {
                    0 => rng.usize(0, 3),
                    1 => rng.usize(0, left),
                    2 => rng.usize(0, (cfg.block_size as usize) * ch * 2),
                    _ => *rng.pick(&[0usize, 1, 2, 3, 5, 7, 4095, 4096, 4097]),
                };
                let s = s.min(left);
                splits.push(s);
                left -= s;
            }
            compare(rep, &reference, &cfg, front, &pcm, &splits, "random chunking");
        }
    }
}

/// Calls the writer refuses are not part of the input: a channel-writer history in which refused
/// calls (wrong channel count, channels of unequal length - the first ones non-empty) are mixed
/// between the accepted ones must finish with the same file as the accepted calls alone.
fn run_rejected(rep: &mut Report, rng: &mut Rng) {
    use flac_codec::encode::FlacChannelWriter;
    let mut cfg = EncCfg::random(rng);
    cfg.channels = rng.usize(2, 8) as u8;
    cfg.block_size = *rng.pick(&[16u16, 64, 192, 256]);
    cfg.extras = 0;
    let ch = cfg.channels as usize;
    let frames = cfg.block_size as usize * rng.usize(0, 3) + rng.usize(1, cfg.block_size as usize);
    let mut r2 = Rng::new(rng.next());
    let pcm = flacref::pcm::generate(*rng.pick(&[Signal::NoiseLow, Signal::PositionCoded, Signal::Sine, Signal::SmoothRandomWalk]), ch, cfg.bps, frames, &mut r2);
    rep.case_begin(&format!("refused calls between accepted ones {cfg:?} frames {frames}"));
    let Ok(reference) = enc_split(&cfg, Front::Channel, &pcm, &[]) else { return };
    // plan: (accepted chunk length, kind of refused call made before it: 0 none)
    let mut plan: Vec<(usize, u8)> = vec![];
    let mut left = frames;
    while left > 0 {
        let s = rng.usize(1, left.min(cfg.block_size as usize * 2));
        plan.push((s, if rng.chance(1, 2) { rng.usize(1, 4) as u8 } else { 0 }));
        left -= s;
    }
    rep.eval();
    rep.count("refused_call_histories", "channel writer");
    let replay = J::obj().set("scenario", "refused-calls").set("cfg", cfg.to_json()).set("pcm", pcm_json(&pcm)).set("plan", format!("{plan:?}"));
    let chans = flacref::dec::deinterleave(&pcm, ch);
    let obs = mon::observe(|| -> Result<(Vec<u8>, usize, usize), String> {
        let opts = make_options(&cfg)?;
        let mut c = std::io::Cursor::new(Vec::new());
        let total = cfg.declare_total.then_some(frames as u64);
        let mut wr = FlacChannelWriter::new(&mut c, opts, cfg.rate, cfg.bps, cfg.channels, total).map_err(|e| crate::api::show(&e))?;
        let (mut pos, mut refused, mut accepted_bad) = (0usize, 0usize, 0usize);
        for (s, bad) in &plan {
            let end = pos + s;
            if *bad != 0 {
                let mut part: Vec<&[i32]> = chans.iter().map(|c| &c[pos..end]).collect();
                match bad {
                    1 => {
                        let last = part.len() - 1;
                        part[last] = &part[last][..s - 1]; // last channel one short
                    }
                    2 => {
                        part[0] = &part[0][..s - 1]; // first channel one short (may be empty)
                    }
                    3 => {
                        part.pop(); // a channel missing
                    }
                    _ => {
                        let extra = part[0];
                        part.push(extra); // a channel too many
                    }
                }
                match wr.write(&part) {
                    Err(_) => refused += 1,
                    Ok(()) => accepted_bad += 1,
                }
            }
            let part: Vec<&[i32]> = chans.iter().map(|c| &c[pos..end]).collect();
            wr.write(&part).map_err(|e| format!("accepted call failed: {}", crate::api::show(&e)))?;
            pos = end;
        }
        wr.finalize().map_err(|e| format!("finalize failed: {}", crate::api::show(&e)))?;
        Ok((c.into_inner(), refused, accepted_bad))
    });
    rep.observe_cost(obs.cpu_us, obs.peak_alloc);
    match obs.result {
        Err(p) => rep.violation("panic", p.signature(), format!("channel writer used on after refused calls: {} at {}", p.msg, p.location), replay),
        Ok(Err(e)) => rep.violation("encode-error", format!("after-refused-call:{}", e.split(':').next().unwrap_or("")), format!("plan {:?}: {e}", &plan[..plan.len().min(8)]), replay),
        Ok(Ok((b, refused, accepted_bad))) => {
            rep.count("refused_calls", refused.min(9));
            if accepted_bad > 0 {
                // an ill-formed call that is accepted changes the input; nothing to compare (C15's business)
                rep.count("ill_formed_call_accepted", accepted_bad.min(9));
            } else if b != reference {
                let at = b.iter().zip(&reference).position(|(x, y)| x != y);
                rep.violation(
                    "nondeterministic",
                    "output-differs:Channel:after-refused-call",
                    format!("{refused} refused call(s) between the accepted ones changed the file: {} bytes vs {} for the accepted calls alone, first difference at byte {at:?}; plan {:?}", b.len(), reference.len(), &plan[..plan.len().min(8)]),
                    replay,
                );
            } else if refused > 0 {
                rep.nontrivial(fnv(&reference) ^ hash_str(&format!("refused{plan:?}")));
            }
        }
    }
}

/// A trailing partial PCM frame is dropped: same file as for the truncated input.
fn run_partial(rep: &mut Report, rng: &mut Rng) {
    let mut cfg = small_cfg(rng);
    cfg.channels = rng.usize(2, 4) as u8;
    cfg.declare_total = false;
    let ch = cfg.channels as usize;
    // include the exact-multiple-of-block-size case and the "less than one PCM frame in total" case
    let frames = match rng.below(4) {
        0 => cfg.block_size as usize * rng.usize(1, 3),
        1 => 0,
        _ => rng.usize(1, 80),
    };
    let mut r2 = Rng::new(rng.next());
    let whole = flacref::pcm::generate(Signal::NoiseLow, ch, cfg.bps, frames, &mut r2);
    let extra_samples = rng.usize(1, ch - 1);
    let mut with_partial = whole.clone();
    for i in 0..extra_samples {
        with_partial.push(flacref::pcm::clip(i as i64 + 1, cfg.bps));
    }
    rep.case_begin(&format!("partial {cfg:?} frames {frames} + {extra_samples} samples"));
    let reference = enc_split(&cfg, Front::Sample, &whole, &[]);
    for (front, label) in [(Front::Sample, "samples"), (Front::ByteLE, "bytes"), (Front::ByteBE, "bytes")] {
        rep.eval();
        rep.count("partial_frame_front", format!("{front:?}"));
        // byte writers: also cut in the middle of a sample
        let obs = mon::observe(|| {
            if front == Front::Sample {
                enc_split(&cfg, front, &with_partial, &[])
            } else {
                let be = front == Front::ByteBE;
                let mut bytes = flacref::pcm::to_bytes(&with_partial, cfg.bps, be);
                let bps_b = cfg.bps.div_ceil(8) as usize;
                if bps_b > 1 && fnv(&bytes) % 2 == 0 {
                    bytes.truncate(bytes.len() - 1);
                }
                let mut c = std::io::Cursor::new(Vec::new());
                let opts = make_options(&cfg).map_err(|e| EncErr { stage: "options", err: e })?;
                use std::io::Write;
                let r = if be {
                    flac_codec::encode::FlacByteWriter::endian(&mut c, flac_codec::byteorder::BigEndian, opts, cfg.rate, cfg.bps, cfg.channels, None)
                        .map_err(|e| EncErr { stage: "new", err: crate::api::show(&e) })
                        .and_then(|mut w| {
                            w.write_all(&bytes).map_err(|e| EncErr { stage: "write", err: format!("Io({e:?})") })?;
                            w.finalize().map_err(|e| EncErr { stage: "finalize", err: crate::api::show(&e) })
                        })
                } else {
                    flac_codec::encode::FlacByteWriter::endian(&mut c, flac_codec::byteorder::LittleEndian, opts, cfg.rate, cfg.bps, cfg.channels, None)
                        .map_err(|e| EncErr { stage: "new", err: crate::api::show(&e) })
                        .and_then(|mut w| {
                            w.write_all(&bytes).map_err(|e| EncErr { stage: "write", err: format!("Io({e:?})") })?;
                            w.finalize().map_err(|e| EncErr { stage: "finalize", err: crate::api::show(&e) })
                        })
                };
                r.map(|()| c.into_inner())
            }
        });
        let replay = || replay_json(&cfg, front, &with_partial, &[]).set("whole_frames", frames).set("partial", label);
        match (obs.result, &reference) {
            (Err(p), _) => rep.violation("panic", format!("{}", p.signature()), format!("trailing partial PCM frame ({front:?}): {} at {}", p.msg, p.location), replay()),
            (Ok(Ok(b)), Ok(r)) => {
                if &b != r {
                    rep.violation("nondeterministic", format!("partial-frame-output-differs:{front:?}"), format!("{front:?}: file written with a trailing partial PCM frame differs from the file for the truncated input"), replay());
                } else {
                    rep.nontrivial(fnv(&b) ^ hash_str(&format!("partial{front:?}{extra_samples}")));
                    rep.count("partial_frame_outcome", "dropped-identical-file");
                }
            }
            (Ok(Err(e)), Err(re)) => {
                // nothing whole was written: both must refuse the same way
                if err_name(&e.err) != err_name(&re.err) {
                    rep.violation("mismatch", "partial-frame-error-differs", format!("{front:?}: {e:?} vs reference {re:?}"), replay());
                } else {
                    rep.count("partial_frame_outcome", format!("both-refuse:{}", err_name(&e.err)));
                }
            }
            (Ok(Ok(_)), Err(re)) => rep.violation("mismatch", "partial-frame-accepted-but-reference-refused", format!("{front:?}: Ok vs reference {re:?}"), replay()),
            (Ok(Err(e)), Ok(_)) => rep.violation(
                "encode-error",
                format!("partial-frame-error:{}:{}", e.stage, err_name(&e.err)),
                format!("{front:?}: a trailing partial PCM frame made the encode fail at {}: {}", e.stage, e.err),
                replay(),
            ),
        }
    }
}

pub fn run(ctx: &Ctx, rep: &mut Report) {
    if ctx.replay.is_some() {
        let text = std::fs::read_to_string(ctx.replay.as_ref().unwrap()).expect("replay");
        let j = crate::json::parse(&text).expect("json");
        eprintln!("C08 replay: stored case\n{}", j.get("detail").and_then(|d| d.as_str()).unwrap_or(""));
        let r = j.get("replay").unwrap_or(&j);
        if let (Some(case), Some(pcm)) = (r.get("cfg"), r.get("pcm").and_then(|p| p.as_arr())) {
            let pcm: Vec<i32> = pcm.iter().filter_map(|x| x.as_i64()).map(|x| x as i32).collect();
            let wrap = J::obj().set("cfg", case.clone()).set("front", r.get("front").cloned().unwrap_or(J::Null)).set("recipe", J::obj().set("signal", "Silence").set("seed", 0u64).set("frames", 1usize));
            if let Some(c) = super::c01::case_from_json(&wrap) {
                let splits: Vec<usize> = r.get("splits").and_then(|s| s.as_arr()).map(|a| a.iter().filter_map(|x| x.as_u64()).map(|x| x as usize).collect()).unwrap_or_default();
                let reference = enc_split(&c.cfg, Front::Sample, &pcm[..pcm.len() - pcm.len() % c.cfg.channels as usize], &[]);
                let got = mon::guard(|| enc_split(&c.cfg, c.front, &pcm, &splits));
                eprintln!("reference: {:?} bytes; replayed: {:?}", reference.as_ref().map(|b| b.len()), got.as_ref().map(|r| r.as_ref().map(|b| b.len())));
                if let (Ok(r0), Ok(Ok(g))) = (&reference, &got) {
                    eprintln!("identical: {}", r0 == g);
                }
            }
        }
        return;
    }
    let mut rng = ctx.rng(0xC08);
    let mut i = 0u64;
    while ctx.time_left() {
        i += 1;
        match i % 4 {
            0 => run_small(rep, &mut rng, ctx.thorough),
            1 | 2 => run_large(rep, &mut rng),
            _ => {
                for _ in 0..6 {
                    run_partial(rep, &mut rng);
                }
                for _ in 0..3 {
                    run_rejected(rep, &mut rng);
                }
            }
        }
    }
}
