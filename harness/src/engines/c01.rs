//! C01 (lossless round trip through every reader front-end) and
//! C02 (encoder output judged by the independent strict validator).
//! Same workload, different oracle.

use super::common::*;
use crate::api::*;
use crate::json::J;
use crate::mon;
use crate::report::{hash_str, Report};
use crate::Ctx;
use flacref::dec::{decode_file, Rules};
use flacref::pcm::Signal;
use flacref::rng::Rng;

#[derive(Debug, Clone, Copy, PartialEq, Eq)]
pub enum Judge {
    CrateDecoders,
    Reference,
}

pub struct Case {
    pub cfg: EncCfg,
    pub front: Front,
    pub recipe: PcmRecipe,
}

impl Case {
    fn to_json(&self, pcm: &[i32]) -> J {
        J::obj()
            .set("cfg", self.cfg.to_json())
            .set("front", format!("{:?}", self.front))
            .set("recipe", self.recipe.to_json())
            .set("pcm", pcm_json(pcm))
    }
    fn desc(&self) -> String {
        format!("{:?} {:?} {:?}", self.cfg, self.front, self.recipe)
    }
}

fn presets(channels: u8, bps: u32) -> Vec<EncCfg> {
    let d = EncCfg::default_for(channels, bps, 44100);
    vec![
        d.clone(),
        EncCfg { max_lpc: Some(12), max_part: 6, ..d.clone() },                       // "best"
        EncCfg { block_size: 1152, mid_side: false, max_part: 3, max_lpc: None, fast: true, ..d.clone() }, // "fast"
        EncCfg { max_lpc: Some(32), max_part: 15, ..d.clone() },
        EncCfg { block_size: 16, max_lpc: Some(8), max_part: 15, ..d.clone() },
        EncCfg { block_size: 32, max_lpc: Some(32), max_part: 4, fast: true, ..d },
    ]
}

pub fn run_case(ctx: &Ctx, rep: &mut Report, judge: Judge, case: &Case) {
    let cfg = &case.cfg;
    let pcm = case.recipe.make(cfg.channels as usize, cfg.bps);
    rep.case_begin(&case.desc());
    rep.eval();
    rep.count("front", format!("{:?}", case.front));
    rep.count("signal", format!("{:?}", case.recipe.signal));
    rep.count("bps", cfg.bps);
    rep.count("channels", cfg.channels);
    rep.count("block_size", cfg.block_size);
    rep.count("max_lpc", format!("{:?}", cfg.max_lpc));
    rep.count("max_part", cfg.max_part);
    let prop = if judge == Judge::CrateDecoders { "C01" } else { "C02" };
    // a quarter of the cases write through a sink that performs short writes
    let hcase = hash_str(&case.desc());
    let max_write = if hcase % 4 == 0 { [1usize, 7, 64, 500][(hcase / 4 % 4) as usize] } else { 0 };
    rep.count("sink", if max_write == 0 { "cursor".to_string() } else { format!("short-writes<={max_write}") });
    // a fifth of the cases hand the audio over in several calls of odd sizes (in the front-end's
    // own unit: samples, bytes - so also ending in the middle of a sample - or PCM frames)
    let splits: Vec<usize> = if hcase % 5 == 2 {
        let mut r = Rng::new(hcase);
        (0..r.usize(1, 12)).map(|_| *r.pick(&[1usize, 2, 3, 5, 7, 13, 257, 1000, 4097, 8191])).collect()
    } else {
        vec![]
    };
    rep.count("write_calls", if splits.is_empty() { "one".to_string() } else { "several-odd-sized".to_string() });
    let obs = mon::observe(|| {
        if !splits.is_empty() {
            let mut c = std::io::Cursor::new(Vec::new());
            encode_into(&mut c, cfg, case.front, &pcm, &splits).map(|()| c.into_inner())
        } else if max_write == 0 {
            encode(cfg, case.front, &pcm)
        } else {
            encode_short_writes(cfg, case.front, &pcm, max_write)
        }
    });
    rep.observe_cost(obs.cpu_us, obs.peak_alloc);
    let bytes = match obs.result {
        Err(p) => {
            rep.violation("panic", format!("encode:{}", p.signature()), format!("{} at {}", p.msg, p.location), case.to_json(&pcm));
            return;
        }
        Ok(Err(e)) => {
            // every generated configuration is documented-legal and the PCM is in range
            rep.violation(
                "encode-error",
                format!("encode-error:{}:{}", e.stage, err_name(&e.err)),
                format!("{prop}: encoder refused in-domain input at {}: {}", e.stage, e.err),
                case.to_json(&pcm),
            );
            return;
        }
        Ok(Ok(b)) => b,
    };
    if obs.cpu_us > mon::cpu_budget_us(pcm.len() * 4) {
        rep.violation("cpu", "cpu:encode", format!("encode used {} us", obs.cpu_us), case.to_json(&pcm));
    }
    // structural coverage from the independent decoder
    let strict = decode_file(&bytes, &Rules::STRICT);
    let mut nontrivial = false;
    match &strict {
        Ok(d) => {
            nontrivial = coverage_from_frames(rep, d);
            rep.count_n("frames_validated", "n", d.frames.len() as u64);
        }
        Err(_) => {
            if let Ok(d) = decode_file(&bytes, &Rules::LENIENT) {
                nontrivial = coverage_from_frames(rep, &d);
            }
        }
    }
    if nontrivial {
        rep.nontrivial(hash_str(&format!("{:?}|{:?}|{}|{:?}", cfg, case.recipe.signal, case.recipe.frames, case.front)));
    }
    rep.sample(|| {
        J::obj()
            .set("cfg", cfg.to_json())
            .set("front", format!("{:?}", case.front))
            .set("recipe", case.recipe.to_json())
            .set("encoded_bytes", bytes.len())
            .set("frames", strict.as_ref().map(|d| d.frames.len()).unwrap_or(0))
    });
    match judge {
        Judge::Reference => match strict {
            Err(r) => {
                rep.violation(
                    "nonconforming",
                    format!("refdec:{}", r.rule),
                    format!("independent validator rejects encoder output: {r}"),
                    case.to_json(&pcm).set("flac", if bytes.len() <= 6000 { J::hex(&bytes) } else { J::Null }),
                );
            }
            Ok(d) => {
                let got = d.interleaved();
                if got != pcm {
                    rep.violation(
                        "mismatch",
                        "refdec:pcm-mismatch",
                        format!("independent decoder reconstructs different PCM: {}", first_diff(&got, &pcm)),
                        case.to_json(&pcm),
                    );
                }
                if d.info.channels != cfg.channels || d.info.bps as u32 != cfg.bps || d.info.rate != cfg.rate {
                    rep.violation("mismatch", "refdec:streaminfo", format!("{:?}", d.info), case.to_json(&pcm));
                }
                if d.info.md5 == [0u8; 16] {
                    rep.violation("mismatch", "refdec:md5-absent", "finalized file carries no MD5", case.to_json(&pcm));
                }
                rep.count("rule_checked", "all-strict-rules");
            }
        },
        Judge::CrateDecoders => {
            // every reader front-end must return exactly the input
            let mut r = Rng::new(hash_str(&case.desc()));
            for kind in READERS {
                let n = *r.pick(&[1usize, 2, 3, 7, 64, 4096, 1 << 20]);
                let obs = mon::observe(|| decode_all(std::io::Cursor::new(&bytes[..]), kind, n));
                rep.observe_cost(obs.cpu_us, obs.peak_alloc);
                rep.count("reader", format!("{kind:?}"));
                match obs.result {
                    Err(p) => {
                        rep.violation("panic", format!("decode:{}", p.signature()), format!("{kind:?}: {} at {}", p.msg, p.location), case.to_json(&pcm));
                    }
                    Ok(d) => {
                        if let Some(e) = &d.error {
                            rep.violation(
                                "decode-error",
                                format!("decode-error:{}", err_name(e)),
                                format!("{kind:?} fails on the crate's own output: {e} (after {} samples of {})", d.samples.len(), pcm.len()),
                                case.to_json(&pcm),
                            );
                            continue;
                        }
                        if d.samples != pcm {
                            rep.violation(
                                "mismatch",
                                format!("roundtrip-mismatch:{kind:?}"),
                                format!("{kind:?}: {}", first_diff(&d.samples, &pcm)),
                                case.to_json(&pcm),
                            );
                        }
                        if let Some(m) = &d.meta {
                            if m.channels != cfg.channels || m.bps != cfg.bps || m.rate != cfg.rate || m.total != Some((pcm.len() / cfg.channels as usize) as u64) {
                                rep.violation("mismatch", "roundtrip-metadata", format!("{m:?} vs {cfg:?}"), case.to_json(&pcm));
                            }
                        }
                        if d.polls_after_eos_with_data > 0 {
                            rep.violation("mismatch", format!("data-after-eos:{kind:?}"), format!("{kind:?} returned data after end of stream"), case.to_json(&pcm));
                        }
                    }
                }
            }
            match mon::guard(|| verify_bytes(&bytes)) {
                Ok(Ok(flac_codec::decode::Verified::MD5Match)) => rep.count("verify", "MD5Match"),
                Ok(other) => rep.violation("mismatch", "verify-not-match", format!("verify_reader: {other:?}"), case.to_json(&pcm)),
                Err(p) => rep.violation("panic", format!("verify:{}", p.signature()), p.msg.clone(), case.to_json(&pcm)),
            }
        }
    }
    let _ = ctx;
}

/// C01 through the path-based conveniences: `create` / `create_cdda` -> file on disk -> `open`,
/// `verify(path)`, `metadata::info/block/blocks_of(path)`.  Same oracle as the in-memory round
/// trip; files live in `<--out dir>/tmp` (the check's own scratch directory) and are removed.
pub fn run_path_case(ctx: &Ctx, rep: &mut Report, rng: &mut Rng, n: u64) {
    use flac_codec::byteorder::LittleEndian;
    use flac_codec::decode::{FlacByteReader, FlacChannelReader, FlacSampleReader, Metadata};
    use flac_codec::encode::{FlacByteWriter, FlacChannelWriter, FlacSampleWriter};
    use std::io::{Read, Write};
    let dir = crate::api::scratch_dir().join(format!("paths-{}-{}-{}", std::process::id(), ctx.seed, ctx.shard));
    if std::fs::create_dir_all(&dir).is_err() {
        rep.notes.push("path scenario skipped: cannot create a scratch directory".into());
        return;
    }
    let path = dir.join(format!("case-{n}.flac"));
    let cdda = rng.chance(1, 3);
    let mut cfg = EncCfg::random(rng);
    cfg.extras = 0;
    if cdda {
        cfg.channels = 2;
        cfg.bps = 16;
        cfg.rate = 44100;
    }
    cfg.block_size = *rng.pick(&[16u16, 192, 576, 1152, 4096]);
    let frames = rng.usize(1, 3000);
    let recipe = PcmRecipe { signal: *rng.pick(&flacref::pcm::ALL_SIGNALS), seed: rng.next(), frames };
    let pcm = recipe.make(cfg.channels as usize, cfg.bps);
    let front = *rng.pick(&[Front::Sample, Front::ByteLE, Front::Channel]);
    rep.eval();
    rep.case_begin(&format!("path round trip cdda={cdda} {front:?} {cfg:?} {recipe:?}"));
    rep.count("path_api", format!("{}:{front:?}", if cdda { "create_cdda" } else { "create" }));
    let replay = || J::obj().set("scenario", "path-round-trip").set("cdda", cdda).set("cfg", cfg.to_json()).set("front", format!("{front:?}")).set("recipe", recipe.to_json());
    let Ok(opts) = make_options(&cfg) else { return };
    let opts = opts.overwrite();
    // half of the cases overwrite an existing, much longer file (an earlier run's output): nothing
    // of it may survive behind the new stream
    let stale = rng.chance(1, 2);
    if stale {
        let old: Vec<u8> = (0..(pcm.len() * 5 + 70_000)).map(|i| b"fLaC-stale-"[i % 11]).collect();
        if std::fs::write(&path, &old).is_err() {
            return;
        }
    }
    rep.count("path_target", if stale { "existing longer file (overwrite)" } else { "new file" });
    let ch = cfg.channels as usize;
    let total_frames = (pcm.len() / ch) as u64;
    let written = mon::guard(|| -> Result<(), String> {
        let e = |e: flac_codec::Error| crate::api::show(&e);
        match front {
            Front::Sample => {
                let total = cfg.declare_total.then_some(pcm.len() as u64);
                let mut w = if cdda { FlacSampleWriter::create_cdda(&path, opts, total).map_err(e)? } else { FlacSampleWriter::create(&path, opts, cfg.rate, cfg.bps, cfg.channels, total).map_err(e)? };
                w.write(&pcm).map_err(e)?;
                w.finalize().map_err(e)
            }
            Front::ByteLE | Front::ByteBE => {
                let bytes = flacref::pcm::to_bytes(&pcm, cfg.bps, false);
                let total = cfg.declare_total.then_some(bytes.len() as u64);
                let mut w: FlacByteWriter<_, LittleEndian> = if cdda { FlacByteWriter::create_cdda(&path, opts, total).map_err(e)? } else { FlacByteWriter::create(&path, opts, cfg.rate, cfg.bps, cfg.channels, total).map_err(e)? };
                w.write_all(&bytes).map_err(|e| format!("Io({e:?})"))?;
                w.finalize().map_err(e)
            }
            Front::Channel => {
                let total = cfg.declare_total.then_some(total_frames);
                let mut w = if cdda { FlacChannelWriter::create_cdda(&path, opts, total).map_err(e)? } else { FlacChannelWriter::create(&path, opts, cfg.rate, cfg.bps, cfg.channels, total).map_err(e)? };
                let chans = flacref::dec::deinterleave(&pcm, ch);
                w.write(&chans).map_err(e)?;
                w.finalize().map_err(e)
            }
        }
    });
    match written {
        Err(p) => {
            rep.violation("panic", format!("path-encode:{}", p.signature()), format!("{} at {}", p.msg, p.location), replay());
            let _ = std::fs::remove_dir_all(&dir);
            return;
        }
        Ok(Err(e)) => {
            rep.violation("encode-error", format!("path-encode-error:{}", err_name(&e)), format!("path-based writer refused in-domain input: {e}"), replay());
            let _ = std::fs::remove_dir_all(&dir);
            return;
        }
        Ok(Ok(())) => {}
    }
    // the file on disk is exactly one conforming stream (independent strict validator: nothing
    // may follow the last frame) carrying the PCM that was written
    match std::fs::read(&path) {
        Ok(bytes) => match decode_file(&bytes, &Rules::STRICT) {
            Ok(d) => {
                if d.interleaved() != pcm {
                    rep.violation("mismatch", "path-file:pcm-mismatch", format!("the file written through the path-based constructor holds different PCM: {}", first_diff(&d.interleaved(), &pcm)), replay());
                }
            }
            Err(r) => rep.violation("nonconforming", format!("path-file:refdec:{}", r.rule), format!("file written through create/create_cdda (over {}): {r}", if stale { "an existing longer file" } else { "a new path" }), replay()),
        },
        Err(e) => rep.notes.push(format!("path scenario: cannot read the file back: {e}")),
    }
    // read back through every path-based reader
    let read = mon::guard(|| -> Result<(), String> {
        let e = |e: flac_codec::Error| crate::api::show(&e);
        let mut r = FlacSampleReader::open(&path).map_err(e)?;
        if r.channel_count() != cfg.channels || r.bits_per_sample() != cfg.bps || r.sample_rate() != cfg.rate || r.total_samples() != Some(total_frames) {
            return Err(format!("MISMATCH metadata via open(): ch {} bps {} rate {} total {:?}", r.channel_count(), r.bits_per_sample(), r.sample_rate(), r.total_samples()));
        }
        let mut got = vec![];
        r.read_to_end(&mut got).map_err(e)?;
        if got != pcm {
            return Err(format!("MISMATCH FlacSampleReader::open: {}", first_diff(&got, &pcm)));
        }
        let mut b = vec![];
        FlacByteReader::open(&path, LittleEndian).map_err(e)?.read_to_end(&mut b).map_err(|e| format!("Io({e:?})"))?;
        if b != flacref::pcm::to_bytes(&pcm, cfg.bps, false) {
            return Err("MISMATCH FlacByteReader::open returns different bytes".into());
        }
        let mut cr = FlacChannelReader::open(&path).map_err(e)?;
        let mut frames_seen = 0u64;
        loop {
            let f = cr.fill_buf().map_err(e)?;
            let k = f.first().map(|c| c.len()).unwrap_or(0);
            if k == 0 {
                break;
            }
            frames_seen += k as u64;
            cr.consume(k);
        }
        if frames_seen != total_frames {
            return Err(format!("MISMATCH FlacChannelReader::open delivered {frames_seen} PCM frames of {total_frames}"));
        }
        match flac_codec::decode::verify(&path).map_err(e)? {
            flac_codec::decode::Verified::MD5Match => {}
            other => return Err(format!("MISMATCH verify(path) says {other:?}")),
        }
        let si = flac_codec::metadata::info(&path).map_err(e)?;
        if si.total_samples.map(|t| t.get()) != Some(total_frames) || si.sample_rate != cfg.rate {
            return Err(format!("MISMATCH metadata::info(path): {si:?}"));
        }
        let si2: Option<flac_codec::metadata::Streaminfo> = flac_codec::metadata::block(&path).map_err(e)?;
        if si2.as_ref() != Some(&si) {
            return Err("MISMATCH metadata::block::<Streaminfo>(path) differs from info(path)".into());
        }
        let pads = flac_codec::metadata::blocks_of::<_, flac_codec::metadata::Padding>(&path).filter(|b| b.is_ok()).count();
        std::hint::black_box(pads);
        Ok(())
    });
    match read {
        Err(p) => rep.violation("panic", format!("path-decode:{}", p.signature()), format!("{} at {}", p.msg, p.location), replay()),
        Ok(Err(m)) if m.starts_with("MISMATCH") => rep.violation("mismatch", format!("path-roundtrip:{}", m.split(':').next().unwrap_or("").replace("MISMATCH ", "")), m, replay()),
        Ok(Err(e)) => rep.violation("decode-error", format!("path-decode-error:{}", err_name(&e)), format!("path-based reader fails on the crate's own file: {e}"), replay()),
        Ok(Ok(())) => rep.nontrivial(hash_str(&format!("path{:?}{:?}{cdda}", cfg, recipe))),
    }
    let _ = std::fs::remove_dir_all(&dir);
}

/// C02, raw frame streams: a history of `FlacStreamWriter::write` calls, some of them refused
/// (illegal parameters), must leave a byte stream that is exactly the conforming frames of the
/// accepted calls, numbered consecutively from 0; a refused call contributes nothing.
pub fn run_stream_history(rep: &mut Report, rng: &mut Rng) {
    use flac_codec::encode::{FlacStreamWriter, Options};
    use flacref::dec::decode_raw;
    let nops = rng.usize(2, 9);
    let opts = if rng.chance(1, 2) { Options::default() } else { Options::fast() };
    let mut ops: Vec<(u32, u8, u32, Vec<i32>, &'static str)> = vec![];
    for _ in 0..nops {
        let channels = if rng.chance(1, 2) { rng.usize(1, 2) } else { rng.usize(1, 8) } as u8;
        let bps = *rng.pick(&[8u32, 12, 16, 20, 24, 32]);
        let rate = *rng.pick(&[8000u32, 44100, 48000, 96000, 11025, 12345, 64000, 655340, 1000]);
        let len = if rng.chance(1, 4) { rng.usize(1, 15) } else { rng.usize(16, 400) };
        let mut r2 = Rng::new(rng.next());
        let sig = *rng.pick(&flacref::pcm::ALL_SIGNALS);
        let samples = flacref::pcm::generate(sig, channels as usize, bps, len, &mut r2);
        let op = match rng.below(10) {
            0 => (rate, channels, 18, samples, "bps-not-in-subset"),
            1 => (rate, channels, 0, samples, "bps-0"),
            2 => (rate, 0, bps, samples, "channels-0"),
            3 => (rate, 9, bps, samples, "channels-9"),
            4 => (rate, channels, bps, vec![], "empty"),
            5 if channels > 1 => {
                let mut v = samples;
                v.pop();
                (rate, channels, bps, v, "not-divisible-by-channels")
            }
            6 => (700001, channels, bps, samples, "rate-not-in-subset"),
            _ => (rate, channels, bps, samples, "valid"),
        };
        ops.push(op);
    }
    rep.eval();
    rep.case_begin(&format!("stream-writer history {:?}", ops.iter().map(|o| (o.0, o.1, o.2, o.3.len(), o.4)).collect::<Vec<_>>()));
    let replay = || J::obj().set("scenario", "stream-writer-history").set("ops", J::Arr(ops.iter().map(|o| J::obj().set("rate", o.0).set("channels", o.1).set("bps", o.2).set("samples", pcm_json(&o.3)).set("kind", o.4)).collect()));
    let mut sink: Vec<u8> = vec![];
    let mut accepted: Vec<(u32, u8, u32, Vec<i32>)> = vec![];
    let r = mon::guard(|| {
        let mut w = FlacStreamWriter::new(&mut sink, opts);
        let mut res = vec![];
        for (rate, ch, bps, samples, _) in &ops {
            res.push(w.write(*rate, *ch, *bps, samples).map_err(|e| crate::api::show(&e)));
        }
        res
    });
    let res = match r {
        Err(p) => {
            rep.violation("panic", format!("stream-writer:{}", p.signature()), format!("FlacStreamWriter::write: {} at {}", p.msg, p.location), replay());
            return;
        }
        Ok(r) => r,
    };
    for (op, r) in ops.iter().zip(&res) {
        rep.count("stream_write", format!("{}:{}", op.4, if r.is_ok() { "ok" } else { "refused" }));
        if r.is_ok() {
            accepted.push((op.0, op.1, op.2, op.3.clone()));
        }
    }
    let frames = match decode_raw(&sink, &Rules::STRICT) {
        Ok(f) => f,
        Err(e) => {
            rep.violation("nonconforming", format!("stream-writer:refdec:{}", e.rule), format!("the bytes left by a write history are not a sequence of conforming frames: {e}"), replay());
            return;
        }
    };
    if frames.len() != accepted.len() {
        rep.violation("nonconforming", "stream-writer:frame-count", format!("{} frames in the output, {} calls succeeded", frames.len(), accepted.len()), replay());
        return;
    }
    for (i, ((fi, pcm), (rate, ch, bps, samples))) in frames.iter().zip(&accepted).enumerate() {
        if fi.variable || fi.number != i as u64 {
            rep.violation("nonconforming", "stream-writer:frame-numbering", format!("frame {i} of the output carries number {} (variable={}): frames are not numbered consecutively from 0", fi.number, fi.variable), replay());
            return;
        }
        if fi.rate != *rate || fi.channels != *ch || fi.bps as u32 != *bps || flacref::dec::interleave(pcm) != *samples {
            rep.violation("nonconforming", "stream-writer:frame-content", format!("frame {i} does not carry what call {i} was given (header: rate {} ch {} bps {})", fi.rate, fi.channels, fi.bps), replay());
            return;
        }
    }
    rep.count_n("frames_validated", "n", frames.len() as u64);
    if res.iter().any(|r| r.is_err()) && !accepted.is_empty() {
        rep.nontrivial(crate::report::fnv(&sink));
    }
}

pub fn run(ctx: &Ctx, rep: &mut Report, judge: Judge) {
    if let Some(path) = &ctx.replay {
        replay(ctx, rep, judge, path);
        return;
    }
    if ctx.extra.iter().any(|a| a == "--tiny") {
        // Miri tier: a handful of very small round trips per process (the interpreter is ~10^4 x slower)
        let mut rng = ctx.rng(0x7117);
        for k in 0..2u64 {
            let mut cfg = EncCfg::random(&mut rng);
            cfg.block_size = *rng.pick(&[16u16, 20, 32]);
            cfg.channels = rng.usize(1, 3) as u8;
            cfg.bps = *rng.pick(&[8u32, 12, 16, 24, 32]);
            cfg.max_lpc = *rng.pick(&[None, Some(1), Some(3), Some(6)]);
            cfg.max_part = rng.below(4) as u32;
            let frames = cfg.block_size as usize + rng.usize(1, 12);
            let case = Case { cfg, front: FRONTS[((ctx.shard + k) % 4) as usize], recipe: PcmRecipe { signal: *rng.pick(&flacref::pcm::ALL_SIGNALS), seed: rng.next(), frames } };
            run_case(ctx, rep, judge, &case);
        }
        return;
    }
    let mut idx: u64 = 0;
    // (a) exhaustive short lengths
    let sigs = [Signal::NoiseLow, Signal::Sine, Signal::SmoothRandomWalk, Signal::NoiseFull];
    let max_len = 66;
    for channels in [1u8, 2] {
        for bps in [8u32, 16, 24, 32] {
            for (pi, preset) in presets(channels, bps).into_iter().enumerate() {
                // in the quick tier the two tiny-block presets only run on 16 bit
                if !ctx.thorough && pi >= 4 && bps != 16 {
                    continue;
                }
                for len in 1..=max_len {
                    for (si, sig) in sigs.iter().enumerate() {
                        idx += 1;
                        if !ctx.mine(idx) {
                            continue;
                        }
                        if !ctx.thorough && si == 3 && len % 4 != 0 {
                            continue;
                        }
                        let case = Case {
                            cfg: EncCfg { declare_total: len % 2 == 0, ..preset.clone() },
                            front: FRONTS[(idx as usize / 7) % 4],
                            recipe: PcmRecipe { signal: *sig, seed: ctx.seed.wrapping_mul(1000003) ^ idx, frames: len },
                        };
                        run_case(ctx, rep, judge, &case);
                    }
                }
            }
        }
    }
    rep.notes.push(format!("systematic: lengths 1..={max_len} x {{1,2}}ch x {{8,16,24,32}}bps x presets x signals"));
    // (b) random exploration
    let mut rng = ctx.rng(0xC01);
    if judge == Judge::Reference {
        for _ in 0..40 {
            run_stream_history(rep, &mut rng);
        }
    }
    for n in 0..6 {
        run_path_case(ctx, rep, &mut rng, n);
    }
    while ctx.time_left() {
        if judge == Judge::Reference && rng.chance(1, 8) {
            run_stream_history(rep, &mut rng);
        }
        if rng.chance(1, 40) {
            let n = 1000 + rng.below(1 << 30);
            run_path_case(ctx, rep, &mut rng, n);
        }
        if rng.chance(1, 12) {
            // resonant class: block size = restart period of an all-pole impulse response whose ideal
            // predictor does not fit the coefficient precision of small blocks (negative-shift
            // quantisation branch of the encoder; shows as lpc_shift 0 in the coverage histogram)
            let seed = rng.next();
            let mut cfg = EncCfg::random(&mut rng);
            cfg.block_size = flacref::pcm::resonant_period(seed) as u16;
            cfg.max_lpc = Some(*rng.pick(&[16u8, 24, 32]));
            cfg.bps = *rng.pick(&[16u32, 20, 24, 32]);
            cfg.channels = rng.usize(1, 2) as u8;
            let frames = cfg.block_size as usize * rng.usize(1, 4) + *rng.pick(&[0usize, 0, 1, 40]);
            rep.count("class", "resonant");
            let case = Case { cfg, front: *rng.pick(&FRONTS), recipe: PcmRecipe { signal: Signal::Resonant, seed, frames } };
            run_case(ctx, rep, judge, &case);
            continue;
        }
        let cfg = EncCfg::random(&mut rng);
        let bs = cfg.block_size as usize;
        let order = cfg.max_lpc.unwrap_or(4) as usize;
        let frames = match rng.below(6) {
            0 => rng.usize(1, 66),
            1 => bs * rng.usize(1, 3) + rng.usize(0, 2 * order),
            2 => bs * rng.usize(1, 3) + bs - 1,
            3 => bs * rng.usize(1, 4),
            4 => rng.usize(1, 3 * bs + 40),
            _ => rng.usize(1, 20000),
        };
        let frames = frames.clamp(1, if ctx.thorough { 70000 } else { 24000 });
        let sig = *rng.pick(&flacref::pcm::ALL_SIGNALS);
        let case = Case {
            cfg,
            front: *rng.pick(&FRONTS),
            recipe: PcmRecipe { signal: sig, seed: rng.next(), frames },
        };
        run_case(ctx, rep, judge, &case);
    }
    // (c) thorough: a few maximum-size blocks
    if ctx.thorough && ctx.shard < 4 {
        let mut cfg = EncCfg::default_for(2, 16, 44100);
        cfg.block_size = 65535;
        cfg.max_part = 15;
        let case = Case { cfg, front: FRONTS[ctx.shard as usize], recipe: PcmRecipe { signal: Signal::Mixed, seed: ctx.seed + ctx.shard, frames: 65535 * 2 + 17 } };
        run_case(ctx, rep, judge, &case);
    }
}

fn parse_cfg(j: &J) -> Option<EncCfg> {
    let s = |k: &str| j.get(k).and_then(|v| v.as_str()).map(|x| x.to_string());
    let window = match s("window")?.as_str() {
        "Rectangle" => Win::Rectangle,
        "Hann" => Win::Hann,
        w => Win::Tukey(w.trim_start_matches("Tukey(").trim_end_matches(')').parse().ok()?),
    };
    let padding = match s("padding")?.as_str() {
        "Default" => Pad::Default,
        "None" => Pad::None,
        p => Pad::Size(p.trim_start_matches("Size(").trim_end_matches(')').parse().ok()?),
    };
    let seek = match s("seek")?.as_str() {
        "Default" => SeekPol::Default,
        "Off" => SeekPol::Off,
        p if p.starts_with("Frames(") => SeekPol::Frames(p.trim_start_matches("Frames(").trim_end_matches(')').parse().ok()?),
        p => SeekPol::Seconds(p.trim_start_matches("Seconds(").trim_end_matches(')').parse().ok()?),
    };
    Some(EncCfg {
        channels: j.get("channels")?.as_u64()? as u8,
        bps: j.get("bps")?.as_u64()? as u32,
        rate: j.get("rate")?.as_u64()? as u32,
        block_size: j.get("block_size")?.as_u64()? as u16,
        max_lpc: j.get("max_lpc").and_then(|v| v.as_u64()).map(|x| x as u8),
        max_part: j.get("max_part")?.as_u64()? as u32,
        mid_side: j.get("mid_side")?.as_bool()?,
        fast: j.get("fast")?.as_bool()?,
        window,
        padding,
        seek,
        declare_total: j.get("declare_total")?.as_bool()?,
        extras: j.get("extras").and_then(|v| v.as_u64()).unwrap_or(0) as u8,
    })
}

pub fn case_from_json(j: &J) -> Option<Case> {
    let cfg = parse_cfg(j.get("cfg")?)?;
    let front = match j.get("front")?.as_str()? {
        "Sample" => Front::Sample,
        "ByteLE" => Front::ByteLE,
        "ByteBE" => Front::ByteBE,
        _ => Front::Channel,
    };
    Some(Case { cfg, front, recipe: PcmRecipe::from_json(j.get("recipe")?)? })
}

fn replay(ctx: &Ctx, rep: &mut Report, judge: Judge, path: &str) {
    let text = std::fs::read_to_string(path).expect("replay file");
    let j = crate::json::parse(&text).expect("replay json");
    let r = j.get("replay").unwrap_or(&j);
    match case_from_json(r) {
        Some(case) => {
            eprintln!("replaying {}", case.desc());
            run_case(ctx, rep, judge, &case);
            for v in &rep.violations {
                eprintln!("VIOLATION-DETAIL {} {}: {}", v.kind, v.sig, v.detail);
            }
            if rep.violations.is_empty() {
                eprintln!("replay: no violation reproduced");
            }
        }
        None => eprintln!("replay file has no case descriptor for this engine"),
    }
}
