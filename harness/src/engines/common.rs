//! Helpers shared by engines.

use crate::api::EncCfg;
use crate::json::J;
use crate::report::Report;
use flacref::dec::{Decoded, SubKind};
use flacref::pcm::Signal;
use flacref::rng::Rng;

/// A PCM recipe that can be re-materialised from its descriptor.
#[derive(Debug, Clone)]
pub struct PcmRecipe {
    pub signal: Signal,
    pub seed: u64,
    pub frames: usize,
}

impl PcmRecipe {
    pub fn make(&self, channels: usize, bps: u32) -> Vec<i32> {
        let mut r = Rng::new(self.seed);
        flacref::pcm::generate(self.signal, channels, bps, self.frames, &mut r)
    }
    pub fn to_json(&self) -> J {
        J::obj().set("signal", format!("{:?}", self.signal)).set("seed", self.seed).set("frames", self.frames)
    }
    pub fn from_json(j: &J) -> Option<Self> {
        let name = j.get("signal")?.as_str()?;
        let signal = *flacref::pcm::ALL_SIGNALS.iter().find(|s| format!("{s:?}") == name)?;
        Some(PcmRecipe { signal, seed: j.get("seed")?.as_u64()?, frames: j.get("frames")?.as_u64()? as usize })
    }
}

pub fn pcm_json(pcm: &[i32]) -> J {
    if pcm.len() <= 4000 {
        J::ints(pcm)
    } else {
        J::Null
    }
}

/// Feeds the structural coverage histograms from the reference decoder's frame table.
pub fn coverage_from_frames(rep: &mut Report, d: &Decoded) -> bool {
    let mut nontrivial = false;
    for f in &d.frames {
        rep.count("bs_code", f.bs_code);
        rep.count("rate_code", f.rate_code);
        rep.count("ch_code", f.ch_code);
        rep.count("bps_code", f.bps_code);
        rep.count("number_bytes", f.number_bytes);
        if f.ch_code >= 8 {
            nontrivial = true;
        }
        for s in &f.subframes {
            let k = match s.kind {
                SubKind::Constant => "constant".to_string(),
                SubKind::Verbatim => "verbatim".to_string(),
                SubKind::Fixed(o) => {
                    nontrivial = true;
                    format!("fixed{o}")
                }
                SubKind::Lpc(o) => {
                    nontrivial = true;
                    rep.count("lpc_precision", s.precision);
                    rep.count("lpc_shift", s.shift);
                    format!("lpc{o}")
                }
            };
            rep.count("subframe", k);
            if s.wasted > 0 {
                rep.count("wasted_bits", s.wasted);
            }
            if matches!(s.kind, SubKind::Fixed(_) | SubKind::Lpc(_)) {
                rep.count("coding_method", s.method);
                rep.count("partition_order", s.part_order);
                for p in &s.parts {
                    if p.escape {
                        rep.count("escape_width", p.param);
                    } else {
                        rep.count(if s.method == 0 { "rice_param" } else { "rice2_param" }, p.param);
                    }
                }
            }
        }
    }
    nontrivial
}

pub fn first_diff(a: &[i32], b: &[i32]) -> String {
    if a.len() != b.len() {
        let n = a.iter().zip(b).position(|(x, y)| x != y);
        return format!("length {} vs {} (first differing index {:?})", a.len(), b.len(), n);
    }
    match a.iter().zip(b).position(|(x, y)| x != y) {
        Some(i) => format!("index {i}: {} vs {}", a[i], b[i]),
        None => "equal".into(),
    }
}

pub fn cfg_key(cfg: &EncCfg) -> String {
    format!("{cfg:?}")
}
