//! C16 — raw frame streams are self-describing; the stream reader fabricates no frame.

use crate::api::{make_options, EncCfg};
use crate::io::SegBuf;
use crate::json::J;
use crate::mon;
use crate::report::{fnv, hash_str, Report};
use crate::Ctx;
use flac_codec::decode::FlacStreamReader;
use flac_codec::encode::{FlacStreamWriter, Options};
use flacref::dec::{decode_frame, interleave, Rules};
use flacref::rng::Rng;

#[derive(Debug, Clone, PartialEq, Eq)]
pub struct ModelFrame {
    pub rate: u32,
    pub channels: u8,
    pub bps: u32,
    pub samples: Vec<i32>,
}

fn subset_rate(rng: &mut Rng) -> u32 {
    match rng.below(5) {
        0 => *rng.pick(&[88200u32, 176400, 192000, 8000, 16000, 22050, 24000, 32000, 44100, 48000, 96000]),
        1 => rng.range(1, 254) as u32 * 1000,  // kHz code
        2 => rng.range(1, 65534) as u32,       // Hz code
        3 => rng.range(1, 65534) as u32 * 10,  // daHz code
        _ => *rng.pick(&[11025u32, 12000, 37800, 64000, 352800, 384000, 1000, 10, 655340]),
    }
}

/// sync-free garbage: no 0xFF byte is followed by 0b111110xx; may end in 0xFF
pub fn sync_free(rng: &mut Rng, n: usize, end_ff: bool) -> Vec<u8> {
    let mut v = Vec::with_capacity(n + 1);
    for _ in 0..n {
        let mut b = match rng.below(4) {
            0 => 0xFFu8,
            1 => *rng.pick(&[0xF8u8, 0xF9, 0xFA, 0xFB, 0xFE, 0x7F]),
            _ => rng.next() as u8,
        };
        if v.last() == Some(&0xFF) && (b >> 2) == 0b111110 {
            b = 0x00;
        }
        v.push(b);
    }
    if end_ff {
        v.push(0xFF);
    } else if v.last() == Some(&0xFF) {
        v.push(0x01);
    }
    v
}

pub fn sync_rich(rng: &mut Rng, n: usize) -> Vec<u8> {
    let mut v = vec![];
    while v.len() < n {
        match rng.below(3) {
            0 => {
                v.extend_from_slice(&[0xFF, 0xF8 | rng.below(4) as u8]);
                let k = rng.usize(0, 12);
                v.extend(rng.bytes(k));
            }
            1 => v.push(0xFF),
            _ => v.push(rng.next() as u8),
        }
    }
    if v.last() == Some(&0xFF) {
        v.push(0x00);
    }
    v
}

pub struct StreamCase {
    pub model: Vec<ModelFrame>,
    /// byte ranges of the frames inside `bytes`
    pub frames_at: Vec<(usize, usize)>,
    pub bytes: Vec<u8>,
    pub garbage: &'static str,
}

pub fn build_case(rng: &mut Rng, rep: &mut Report, thorough: bool) -> Option<StreamCase> {
    let nframes = rng.usize(1, if thorough { 20 } else { 8 });
    let garbage = *rng.pick(&["none", "none", "sync-free", "sync-free", "sync-rich"]);
    // any option set: the stream writer shares the channel-correlation, LPC and residual code of
    // the file writers (fast / exhaustive correlation, mid-side on or off, windows, orders)
    let mut opts = Options::default();
    match rng.below(4) {
        0 => opts = Options::fast(),
        1 => opts = Options::best(),
        2 => {}
        _ => {
            let mut cfg = EncCfg::random(rng);
            cfg.extras = 0;
            if let Ok(o) = make_options(&cfg) {
                opts = o;
            }
            rep.count("writer_options", format!("fast={} mid_side={}", cfg.fast, cfg.mid_side));
        }
    }
    let mut out: Vec<u8> = vec![];
    let mut model = vec![];
    let mut frames_at = vec![];
    let gar = |rng: &mut Rng, out: &mut Vec<u8>| match garbage {
        "sync-free" => {
            if rng.chance(2, 3) {
                let n = rng.usize(0, 40);
                let ff = rng.chance(1, 3);
                out.extend(sync_free(rng, n, ff));
            }
        }
        "sync-rich" => {
            if rng.chance(2, 3) {
                let n = rng.usize(1, 60);
                out.extend(sync_rich(rng, n));
            }
        }
        _ => {}
    };
    gar(rng, &mut out);
    let mut frames_bytes: Vec<Vec<u8>> = vec![];
    {
        let mut sink: Vec<u8> = vec![];
        let mut w = FlacStreamWriter::new(&mut sink, opts);
        let mut lens = vec![];
        for _ in 0..nframes {
            let channels = if rng.chance(1, 2) { rng.usize(1, 2) } else { rng.usize(1, 8) } as u8;
            let bps = *rng.pick(&[8u32, 12, 16, 20, 24, 32]);
            // one call in six names a rate no frame header can carry (>= 65535 Hz and neither a multiple
            // of 10 Hz nor a whole number of kHz below 255): the writer may only refuse it - if it
            // accepts, the frame it wrote has to say exactly that rate like any other
            let undescribable = rng.chance(1, 6);
            let rate = if undescribable { *rng.pick(&[65535u32, 65537, 88201, 96001, 99999, 176401, 352801, 655349, 655351, 700001, 1048575]) } else { subset_rate(rng) };
            let len = match rng.below(8) {
                0 => rng.usize(1, 15),
                1 => *rng.pick(&[192usize, 256, 576, 1024, 4096]),
                2 if thorough => *rng.pick(&[65535usize, 32768, 16384]),
                _ => rng.usize(1, 700),
            };
            let mut r2 = Rng::new(rng.next());
            let sig = *rng.pick(&flacref::pcm::ALL_SIGNALS);
            let samples = flacref::pcm::generate(sig, channels as usize, bps, len, &mut r2);
            let obs = mon::guard(|| w.write(rate, channels, bps, &samples).map_err(|e| crate::api::show(&e)));
            match obs {
                Err(p) => {
                    rep.violation("panic", p.signature(), format!("FlacStreamWriter::write: {} at {}", p.msg, p.location), J::obj().set("rate", rate).set("channels", channels).set("bps", bps).set("len", len));
                    return None;
                }
                Ok(Err(_)) if undescribable => {
                    rep.count("undescribable_rate", "refused");
                    continue;
                }
                Ok(Err(e)) => {
                    rep.violation(
                        "encode-error",
                        format!("stream-write-refused:{}", crate::api::err_name(&e)),
                        format!("FlacStreamWriter::write(rate {rate}, ch {channels}, bps {bps}, {len} frames) refused legal subset parameters: {e}"),
                        J::obj().set("rate", rate).set("channels", channels).set("bps", bps).set("len", len),
                    );
                    return None;
                }
                Ok(Ok(())) => {
                    if undescribable {
                        rep.count("undescribable_rate", "accepted (frame must carry it)");
                    }
                }
            }
            lens.push(());
            model.push(ModelFrame { rate, channels, bps, samples });
        }
        drop(w);
        // split the sink at frame boundaries with the independent decoder (each frame from its own header alone)
        let mut off = 0;
        for (i, m) in model.iter().enumerate() {
            match decode_frame(&sink, off, None, &Rules::STRICT) {
                Ok((fi, ch)) => {
                    if fi.rate != m.rate || fi.channels != m.channels || fi.bps as u32 != m.bps || interleave(&ch) != m.samples || fi.number != i as u64 {
                        rep.violation(
                            "not-self-describing",
                            "raw-frame-decodes-differently",
                            format!("frame {i}: independent raw-mode decode gives rate {} ch {} bps {} number {} / {} samples; written rate {} ch {} bps {} / {} samples", fi.rate, fi.channels, fi.bps, fi.number, fi.block_size, m.rate, m.channels, m.bps, m.samples.len() / m.channels as usize),
                            J::obj().set("stream", J::hex(&sink[..sink.len().min(30000)])),
                        );
                        return None;
                    }
                    rep.count("rate_code", fi.rate_code);
                    rep.count("bps_code", fi.bps_code);
                    rep.count("bs_code", fi.bs_code);
                    rep.count("ch_code", fi.ch_code);
                    frames_bytes.push(sink[off..off + fi.len].to_vec());
                    off += fi.len;
                }
                Err(e) => {
                    rep.violation("not-self-describing", format!("raw-frame-rejected:{}", e.rule), format!("frame {i} cannot be decoded from its own header alone: {e}"), J::obj().set("stream", J::hex(&sink[..sink.len().min(30000)])));
                    return None;
                }
            }
        }
        if off != sink.len() {
            rep.violation("not-self-describing", "trailing-bytes-after-frames", format!("{} stray bytes", sink.len() - off), J::Null);
            return None;
        }
    }
    for fb in &frames_bytes {
        frames_at.push((out.len(), out.len() + fb.len()));
        out.extend_from_slice(fb);
        gar(rng, &mut out);
    }
    Some(StreamCase { model, frames_at, bytes: out, garbage })
}

/// does any position inside the garbage regions start a CRC-valid frame?
fn garbage_contains_valid_frame(c: &StreamCase) -> bool {
    let mut in_frame = vec![false; c.bytes.len()];
    for (a, b) in &c.frames_at {
        for x in in_frame.iter_mut().take(*b).skip(*a) {
            *x = true;
        }
    }
    for i in 0..c.bytes.len().saturating_sub(1) {
        if !in_frame[i] && c.bytes[i] == 0xFF && (c.bytes[i + 1] >> 2) == 0b111110 && decode_frame(&c.bytes, i, None, &Rules::LENIENT).is_ok() {
            return true;
        }
    }
    false
}

pub fn read_all(src: SegBuf, cap: usize) -> Result<Vec<ModelFrame>, String> {
    let n = src.data.len();
    let mut rd = FlacStreamReader::new(src);
    let mut got = vec![];
    let mut iterations = 0usize;
    loop {
        iterations += 1;
        if iterations > n + 64 || got.len() > cap {
            return Err("reader does not terminate / returns more frames than bytes allow".into());
        }
        match rd.read() {
            Ok(f) => got.push(ModelFrame { rate: f.sample_rate, channels: f.channels, bps: f.bits_per_sample, samples: f.samples.to_vec() }),
            Err(flac_codec::Error::Io(e)) if e.kind() == std::io::ErrorKind::UnexpectedEof => break,
            Err(_) => {}
        }
    }
    Ok(got)
}

pub fn judge(rep: &mut Report, c: &StreamCase, bounds: Vec<usize>, cap: usize, seg: &str) {
    rep.eval();
    rep.count("garbage", c.garbage);
    rep.count("segmentation", seg);
    let replay = || J::obj().set("stream", J::hex(&c.bytes[..c.bytes.len().min(40000)])).set("frames_at", format!("{:?}", c.frames_at)).set("bounds", format!("{:?}", &bounds[..bounds.len().min(20)])).set("cap", cap).set("garbage", c.garbage);
    let src = SegBuf::new(c.bytes.clone(), bounds.clone(), cap);
    let obs = mon::observe(|| read_all(src, c.model.len() + c.bytes.len() / 10 + 4));
    rep.observe_cost(obs.cpu_us, obs.peak_alloc);
    let got = match obs.result {
        Err(p) => {
            rep.violation("panic", p.signature(), format!("FlacStreamReader::read: {} at {}", p.msg, p.location), replay());
            return;
        }
        Ok(Err(e)) => {
            rep.violation("nontermination", "stream-reader-nontermination", e, replay());
            return;
        }
        Ok(Ok(g)) => g,
    };
    // returned frames must be a subsequence of the written ones, in order
    let mut mi = 0usize;
    let mut fabricated: Option<usize> = None;
    for (gi, g) in got.iter().enumerate() {
        match c.model[mi..].iter().position(|m| m == g) {
            Some(k) => mi += k + 1,
            None => {
                fabricated = Some(gi);
                break;
            }
        }
    }
    if let Some(gi) = fabricated {
        if c.garbage == "sync-rich" && garbage_contains_valid_frame(c) {
            rep.count("discarded", "garbage-contains-crc-valid-frame");
            return;
        }
        let g = &got[gi];
        rep.violation(
            "fabricated-frame",
            format!("fabricated-or-reordered-frame:{}", c.garbage),
            format!("returned frame #{gi} (rate {} ch {} bps {} {} samples) is not one of the written frames in order ({} written, {} returned; segmentation {seg})", g.rate, g.channels, g.bps, g.samples.len(), c.model.len(), got.len()),
            replay(),
        );
        return;
    }
    if c.garbage != "sync-rich" && got.len() != c.model.len() {
        rep.violation(
            "lost-frame",
            format!("frame-lost:{}:{}", c.garbage, if seg.starts_with("split") { "split" } else { seg }),
            format!("{} frames written, only {} returned although the bytes between frames contain no sync pattern (garbage: {}, segmentation {seg})", c.model.len(), got.len(), c.garbage),
            replay(),
        );
        return;
    }
    rep.count_n("frames_returned", "n", got.len() as u64);
    rep.nontrivial(fnv(&c.bytes) ^ hash_str(&format!("{bounds:?}{cap}")));
}

pub fn run(ctx: &Ctx, rep: &mut Report) {
    if let Some(path) = &ctx.replay {
        let text = std::fs::read_to_string(path).expect("replay");
        let j = crate::json::parse(&text).expect("json");
        let r = j.get("replay").unwrap_or(&j);
        if let Some(b) = r.get("stream").and_then(|x| x.unhex()) {
            let cap = r.get("cap").and_then(|x| x.as_u64()).unwrap_or(0) as usize;
            let bounds: Vec<usize> = r.get("bounds").and_then(|x| x.as_str()).map(|s| s.trim_matches(|c| c == '[' || c == ']').split(',').filter_map(|x| x.trim().parse().ok()).collect()).unwrap_or_default();
            match read_all(SegBuf::new(b, bounds, cap), 1 << 20) {
                Ok(g) => {
                    for (i, f) in g.iter().enumerate() {
                        eprintln!("frame {i}: rate {} ch {} bps {} samples {}", f.rate, f.channels, f.bps, f.samples.len());
                    }
                }
                Err(e) => eprintln!("{e}"),
            }
        }
        return;
    }
    let mut rng = ctx.rng(0xC16);
    let mut exhaustive_small = 0u64;
    let mut i = 0u64;
    while i < 40 || ctx.time_left() {
        i += 1;
        rep.case_begin(&format!("c16 case {i}"));
        let Some(c) = build_case(&mut rng, rep, ctx.thorough) else { continue };
        rep.sample(|| J::obj().set("frames", c.model.len()).set("bytes", c.bytes.len()).set("garbage", c.garbage).set("params", J::Arr(c.model.iter().take(6).map(|m| J::Str(format!("{}Hz/{}ch/{}bit/{}", m.rate, m.channels, m.bps, m.samples.len() / m.channels as usize))).collect())));
        judge(rep, &c, vec![], 0, "whole");
        judge(rep, &c, vec![], 1, "1-byte-buffers");
        let cap = rng.usize(2, 64);
        judge(rep, &c, vec![], cap, "capped-buffers");
        let nb = rng.usize(1, 12);
        let bounds: Vec<usize> = (0..nb).map(|_| rng.usize(0, c.bytes.len())).collect();
        judge(rep, &c, bounds, 0, "random-bounds");
        // every single split position for small streams (covers splits inside the sync code)
        if c.bytes.len() <= 1500 && (exhaustive_small < 3 || ctx.thorough) {
            exhaustive_small += 1;
            for at in 0..=c.bytes.len() {
                judge(rep, &c, vec![at], 0, "split-every-position");
            }
        } else {
            // at least the splits inside and around each frame's sync code
            for (a, _) in c.frames_at.clone() {
                for at in [a, a + 1, a + 2] {
                    judge(rep, &c, vec![at], 0, "split-at-sync");
                }
            }
        }
    }
    rep.count_n("streams_with_every_split_position", "n", exhaustive_small);
}
