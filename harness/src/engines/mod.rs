use crate::report::Report;
use crate::Ctx;

pub mod common;
pub mod c01;

pub fn run(engine: &str, ctx: &Ctx, rep: &mut Report) -> bool {
    match engine {
        "c01" => c01::run(ctx, rep, c01::Judge::CrateDecoders),
        "c02" => c01::run(ctx, rep, c01::Judge::Reference),
        _ => return false,
    }
    true
}
