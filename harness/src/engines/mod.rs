use crate::report::Report;
use crate::Ctx;

pub mod common;
pub mod c01;
pub mod c03;
pub mod c04;
pub mod c05;
pub mod hist;
pub mod c08;
pub mod c09;
pub mod c13;
pub mod c15;
pub mod c20;
pub mod c10;
pub mod c11;
pub mod c16;
pub mod c17;
pub mod c18;

pub fn run(engine: &str, ctx: &Ctx, rep: &mut Report) -> bool {
    match engine {
        "c01" => c01::run(ctx, rep, c01::Judge::CrateDecoders),
        "c02" => c01::run(ctx, rep, c01::Judge::Reference),
        "c03" => c03::run(ctx, rep),
        "c04" => c04::run(ctx, rep),
        "c05" => c05::run(ctx, rep),
        "c06" => hist::run_c06(ctx, rep),
        "c07" => hist::run_c07(ctx, rep),
        "c08" => c08::run(ctx, rep),
        "c09" => c09::run(ctx, rep),
        "c13" => c13::run_c13(ctx, rep),
        "c14" => c13::run_c14(ctx, rep),
        "c15" => c15::run(ctx, rep),
        "c20" => c20::run(ctx, rep),
        "c10" => c10::run(ctx, rep),
        "c11" => c11::run_c11(ctx, rep),
        "c12" => c11::run_c12(ctx, rep),
        "c16" => c16::run(ctx, rep),
        "c17" => c17::run_c17(ctx, rep),
        "c19" => c17::run_c19(ctx, rep),
        "c18ref" => c18::run_ref(ctx, rep),
        "c18" => c18::run(ctx, rep),
        "fuzzcorpus" => crate::fuzzbridge::emit_corpus(ctx, rep),
        "fuzzreplay" => crate::fuzzbridge::replay(ctx, rep),
        _ => return false,
    }
    true
}
