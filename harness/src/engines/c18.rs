//! C18 — multithreaded encoding produces the same bytes as single-threaded encoding.
//!
//! `c18ref` (built WITHOUT the rayon feature) encodes a seed-derived corpus and
//! writes one hash per case; `c18` (built with the `par` + `hooks` features)
//! encodes the same cases inside thread pools of several sizes, repeatedly,
//! with seeded delays injected at task starts, compares the bytes with the
//! serial hashes and checks the recorded task trace.

use super::common::*;
use crate::api::*;
use crate::json::J;
use crate::report::{fnv, Report};
use crate::Ctx;
use flacref::rng::Rng;

pub struct Case {
    pub cfg: EncCfg,
    pub front: Front,
    pub recipe: PcmRecipe,
}

/// The corpus is a pure function of (seed, tier) so that both binaries derive the same cases.
pub fn corpus(seed: u64, thorough: bool) -> Vec<Case> {
    corpus_sized(seed, thorough, false)
}

fn has_flag(ctx: &Ctx, name: &str) -> bool {
    ctx.extra.iter().any(|a| a == name)
}

/// `tiny`: the corpus for the Miri tier (an interpreter four orders of magnitude slower): 16-48 sample
/// blocks, one or two frames, small predictor orders
pub fn corpus_sized(seed: u64, thorough: bool, tiny: bool) -> Vec<Case> {
    let mut rng = Rng::new(seed ^ 0xC18C18);
    let n = if tiny { 16 } else if thorough { 400 } else { 96 };
    let mut v = vec![];
    for i in 0..n {
        let mut cfg = EncCfg::random(&mut rng);
        if tiny {
            cfg.block_size = *rng.pick(&[16u16, 24, 48]);
            cfg.channels = if i % 3 == 0 { 1 } else { 2 };
            cfg.bps = *rng.pick(&[8u32, 16, 24]);
            cfg.max_part = rng.below(3) as u32;
            cfg.max_lpc = *rng.pick(&[None, Some(1), Some(2), Some(4)]);
            cfg.padding = crate::api::Pad::None;
            cfg.seek = crate::api::SeekPol::Off;
            let frames = cfg.block_size as usize + rng.usize(0, 9);
            let mut signal = *rng.pick(&[flacref::pcm::Signal::QuietPeriodic, flacref::pcm::Signal::QuietTonal, flacref::pcm::Signal::SmoothRandomWalk, flacref::pcm::Signal::StereoAnti]);
            if i % 2 == 1 {
                // material for which both candidates are tiny, so that the order in which the two
                // parallel candidate tasks finish would show if it mattered
                signal = *rng.pick(&[flacref::pcm::Signal::QuietPeriodic, flacref::pcm::Signal::QuietTonal]);
                cfg.bps = 24;
                cfg.block_size = 48;
                cfg.max_lpc = Some(*rng.pick(&[4u8, 6, 8]));
            }
            v.push(Case { cfg, front: *rng.pick(&FRONTS), recipe: PcmRecipe { signal, seed: rng.next(), frames } });
            continue;
        }
        // rayon tasks are expensive in this VM: moderately large blocks, few frames
        cfg.block_size = *rng.pick(&[256u16, 576, 1024, 1152, 4096]);
        cfg.channels = match i % 4 {
            0 => 1,
            1 | 2 => 2,
            _ => rng.usize(3, 8) as u8,
        };
        cfg.max_part = rng.below(7) as u32;
        cfg.max_lpc = *rng.pick(&[None, Some(4), Some(8), Some(12)]);
        let frames = cfg.block_size as usize * rng.usize(1, 3) + rng.usize(0, 300);
        let mut signal = *rng.pick(&flacref::pcm::ALL_SIGNALS);
        if i % 5 == 4 {
            // very quiet, strictly periodic / tonal material at a high bit depth: the FIXED candidate is
            // tiny and the LPC candidate smaller still, so which of the two parallel candidates
            // finishes first must not matter
            signal = *rng.pick(&[flacref::pcm::Signal::QuietPeriodic, flacref::pcm::Signal::QuietTonal]);
            cfg.bps = *rng.pick(&[16u32, 20, 24, 32]);
            cfg.max_lpc = *rng.pick(&[Some(8), Some(12), Some(32)]);
        }
        let mut frames = frames;
        if i % 6 == 5 {
            // very short blocks (and short final frames) with tonal material: the LPC candidate exists
            // only while the block is longer than the configured order, and it wins on such material -
            // a parallel build that schedules its candidates differently for short blocks shows here
            cfg.block_size = *rng.pick(&[16u16, 20, 24, 32, 33, 48]);
            cfg.max_lpc = *rng.pick(&[Some(2u8), Some(4), Some(8), Some(12), Some(32)]);
            cfg.bps = *rng.pick(&[16u32, 24]);
            signal = *rng.pick(&[flacref::pcm::Signal::Sine, flacref::pcm::Signal::QuietTonal, flacref::pcm::Signal::Sweep, flacref::pcm::Signal::SmoothRandomWalk]);
            frames = cfg.block_size as usize * rng.usize(2, 5) + rng.usize(9, 33);
        }
        v.push(Case { cfg, front: *rng.pick(&FRONTS), recipe: PcmRecipe { signal, seed: rng.next(), frames } });
    }
    v
}

fn ref_path(ctx: &Ctx) -> String {
    let mut it = ctx.extra.iter();
    while let Some(a) = it.next() {
        if a == "--ref" {
            if let Some(p) = it.next() {
                return p.clone();
            }
        }
    }
    "/verif/.build/run/C18/ref.json".to_string()
}

/// serial reference (must run in a binary built without the `par` feature)
pub fn run_ref(ctx: &Ctx, rep: &mut Report) {
    if cfg!(feature = "par") {
        rep.inconclusive.push("c18ref must be built without the rayon feature".into());
        return;
    }
    let cases = corpus_sized(ctx.seed, ctx.thorough, has_flag(ctx, "--tiny"));
    let mut out = J::obj();
    for (i, c) in cases.iter().enumerate() {
        let pcm = c.recipe.make(c.cfg.channels as usize, c.cfg.bps);
        rep.eval();
        match encode(&c.cfg, c.front, &pcm) {
            Ok(b) => {
                out.put(&format!("{i}"), J::obj().set("fnv", format!("{:016x}", fnv(&b))).set("len", b.len()));
                rep.nontrivial(fnv(&b));
            }
            Err(e) => {
                out.put(&format!("{i}"), J::obj().set("error", format!("{}:{}", e.stage, err_name(&e.err))));
            }
        }
    }
    let path = ref_path(ctx);
    if let Some(dir) = std::path::Path::new(&path).parent() {
        let _ = std::fs::create_dir_all(dir);
    }
    std::fs::write(&path, out.to_string()).expect("write serial reference");
    rep.notes.push(format!("serial reference for {} cases written", cases.len()));
}

#[cfg(not(feature = "par"))]
pub fn run(_ctx: &Ctx, rep: &mut Report) {
    rep.inconclusive.push("c18 must be built with the `par` and `hooks` features (rayon + verif-hooks)".into());
}

#[cfg(feature = "par")]
pub fn run(ctx: &Ctx, rep: &mut Report) {
    use crate::mon;
    use crate::report::hash_str;
    use flac_codec::verif;
    use std::collections::{HashMap, HashSet};

    let path = ref_path(ctx);
    let reference = match std::fs::read_to_string(&path).ok().and_then(|t| crate::json::parse(&t).ok()) {
        Some(j) => j,
        None => {
            rep.inconclusive.push(format!("serial reference {path} missing"));
            return;
        }
    };
    let tiny = has_flag(ctx, "--tiny");
    let cases = corpus_sized(ctx.seed, ctx.thorough, tiny);
    let pool_sizes: &[usize] = if tiny { &[2, 3] } else { &[1, 2, 3, 4, 8, 16] };
    let pools: Vec<rayon::ThreadPool> = pool_sizes.iter().map(|t| rayon::ThreadPoolBuilder::new().num_threads(*t).build().expect("thread pool")).collect();
    let mut signatures: HashSet<u64> = HashSet::new();
    let mut frames_total = 0u64;
    let mut frames_overlapping = 0u64;
    let mut multi_frames_total = 0u64;
    let mut threads_seen: HashSet<usize> = HashSet::new();
    let reps = if tiny { 1 } else if ctx.thorough { 4 } else { 2 };
    let mut round = 0u64;
    // one full pass over the shard's cases, then more passes while the budget lasts
    loop {
        for (i, c) in cases.iter().enumerate() {
            if !ctx.mine(i as u64) {
                continue;
            }
            let Some(r) = reference.get(&format!("{i}")) else { continue };
            let pcm = c.recipe.make(c.cfg.channels as usize, c.cfg.bps);
            for (pi, pool) in pools.iter().enumerate() {
                for rpt in 0..reps {
                    rep.eval();
                    rep.count("pool_threads", pool_sizes[pi]);
                    rep.count("block_size_class", if c.cfg.block_size <= 48 { "<=48 (short-block class)" } else { ">=256" });
                    let pseed = ctx.seed ^ ((i as u64) << 20) ^ ((pi as u64) << 8) ^ rpt ^ (round << 40);
                    // seeded delay of 0..=max us at the start of every parallel task
                    let max_us = [0u64, 20, 200][(pseed % 3) as usize];
                    verif::set_perturbation(pseed, max_us);
                    let _ = verif::take_events();
                    rep.case_begin(&format!("case {i} pool {} rep {rpt} perturb {max_us}us {:?} {:?}", pool_sizes[pi], c.cfg, c.recipe));
                    let res = mon::guard(|| pool.install(|| encode(&c.cfg, c.front, &pcm)));
                    let events = verif::take_events();
                    let replay = || J::obj().set("cfg", c.cfg.to_json()).set("front", format!("{:?}", c.front)).set("recipe", c.recipe.to_json()).set("pool_threads", pool_sizes[pi]).set("perturbation_seed", pseed).set("perturbation_max_us", max_us);
                    match res {
                        Err(p) => {
                            rep.violation("panic", p.signature(), format!("parallel encode panicked: {} at {}", p.msg, p.location), replay());
                            continue;
                        }
                        Ok(Err(e)) => {
                            let want = r.get("error").and_then(|x| x.as_str()).unwrap_or("");
                            if want != format!("{}:{}", e.stage, err_name(&e.err)) {
                                rep.violation("differs", "parallel-error-serial-ok", format!("parallel encode failed ({e:?}) where the serial build gives {want:?}"), replay());
                            }
                            continue;
                        }
                        Ok(Ok(b)) => {
                            let want_fnv = r.get("fnv").and_then(|x| x.as_str()).unwrap_or("");
                            let want_len = r.get("len").and_then(|x| x.as_u64()).unwrap_or(u64::MAX);
                            if format!("{:016x}", fnv(&b)) != want_fnv || b.len() as u64 != want_len {
                                rep.violation(
                                    "differs",
                                    format!("parallel-bytes-differ:{}", if b.len() as u64 != want_len { "length" } else { "content" }),
                                    format!("pool of {} threads (perturbation {max_us}us): {} bytes fnv {:016x}; serial build: {want_len} bytes fnv {want_fnv}", pool_sizes[pi], b.len(), fnv(&b)),
                                    replay(),
                                );
                                continue;
                            }
                            rep.nontrivial(hash_str(&format!("{i}/{}/{rpt}/{round}", pool_sizes[pi])));
                        }
                    }
                    // ---- trace monitor over the hook log ----
                    rep.count_n("trace_events", "n", events.len() as u64);
                    // split per frame: "frame" begin .. "frame" end
                    let mut open_frame = false;
                    let mut cur: Vec<&verif::Event> = vec![];
                    let mut frame_count = 0u64;
                    for e in &events {
                        threads_seen.insert(e.thread);
                        if e.kind == "frame" {
                            if e.begin {
                                if open_frame {
                                    rep.violation("trace", "frames-overlap", "a frame task began before the previous frame ended".to_string(), replay());
                                }
                                open_frame = true;
                                cur.clear();
                            } else {
                                open_frame = false;
                                frame_count += 1;
                                // exactly-once: every begin has its end, on the same thread
                                let mut open: HashMap<(&str, usize), i64> = HashMap::new();
                                let mut active = 0i64;
                                let mut overlapped = false;
                                let mut active_threads: Vec<usize> = vec![];
                                let mut sig: Vec<(u8, bool, usize)> = vec![];
                                for t in &cur {
                                    let k = match t.kind {
                                        "subframe" => 1u8,
                                        "fixed" => 2,
                                        "lpc" => 3,
                                        _ => 9,
                                    };
                                    sig.push((k, t.begin, t.thread));
                                    *open.entry((t.kind, t.thread)).or_insert(0) += if t.begin { 1 } else { -1 };
                                    if t.kind != "subframe" {
                                        // leaf tasks: fixed / lpc candidates
                                        if t.begin {
                                            active += 1;
                                            if active_threads.iter().any(|x| *x != t.thread) {
                                                overlapped = true;
                                            }
                                            active_threads.push(t.thread);
                                        } else {
                                            active -= 1;
                                            if let Some(p) = active_threads.iter().position(|x| *x == t.thread) {
                                                active_threads.remove(p);
                                            }
                                        }
                                    }
                                }
                                if open.values().any(|v| *v != 0) || active != 0 {
                                    rep.violation("trace", "task-begin-end-mismatch", format!("unbalanced task events inside a frame: {open:?}"), replay());
                                }
                                let subframes = cur.iter().filter(|t| t.kind == "subframe" && t.begin).count() as u64;
                                let ch = c.cfg.channels as u64;
                                let expected: &[u64] = if ch == 2 && !c.cfg.fast && c.cfg.bps < 32 {
                                    if c.cfg.mid_side {
                                        &[4]
                                    } else {
                                        &[3]
                                    }
                                } else if ch == 2 {
                                    &[2]
                                } else {
                                    &[0]
                                };
                                let want = if expected == [0] { ch } else { expected[0] };
                                if subframes != want {
                                    rep.violation("trace", "subframe-task-count", format!("{subframes} subframe tasks in a frame, expected {want} ({} channels, fast={}, mid_side={}, bps {})", ch, c.cfg.fast, c.cfg.mid_side, c.cfg.bps), replay());
                                }
                                frames_total += 1;
                                let multi = cur.iter().filter(|t| t.kind != "subframe" && t.begin).count() >= 2;
                                if multi {
                                    multi_frames_total += 1;
                                    if overlapped {
                                        frames_overlapping += 1;
                                    }
                                }
                                // interleaving signature with threads renamed in order of appearance
                                let mut names: HashMap<usize, usize> = HashMap::new();
                                let norm: Vec<(u8, bool, usize)> = sig
                                    .iter()
                                    .map(|(k, b, t)| {
                                        let n = names.len();
                                        (*k, *b, *names.entry(*t).or_insert(n))
                                    })
                                    .collect();
                                signatures.insert(hash_str(&format!("{norm:?}")));
                            }
                        } else if open_frame {
                            cur.push(e);
                        }
                    }
                    let _ = frame_count;
                }
            }
        }
        round += 1;
        if tiny || !ctx.time_left() {
            break;
        }
    }
    rep.count_n("frames_traced", "n", frames_total);
    rep.count_n("frames_with_two_or_more_leaf_tasks", "n", multi_frames_total);
    rep.count_n("frames_with_truly_overlapping_tasks", "n", frames_overlapping);
    rep.count_n("distinct_interleaving_signatures_this_shard", "n", signatures.len() as u64);
    rep.count_n("worker_threads_observed_this_shard", "n", threads_seen.len() as u64);
    for s in signatures.iter().take(4000) {
        rep.count("signature", format!("{s:016x}"));
    }
    rep.sample(|| J::obj().set("cases", cases.len()).set("pool_sizes", format!("{pool_sizes:?}")).set("repetitions_per_pool", reps).set("passes", round).set("frames_traced", frames_total).set("overlapping", frames_overlapping).set("distinct_signatures", signatures.len()));
}
