//! C06 (seeking lands exactly) and C07 (exactly-once, in-order delivery):
//! operation histories on every reader front-end checked against a sequential
//! reference model (the decoded PCM as an array plus a cursor).

use super::c03;
use crate::api::*;
use crate::io::{Chunked, SplitSource};
use crate::json::J;
use crate::mon;
use crate::report::{fnv, hash_str, Report};
use crate::Ctx;
use flac_codec::byteorder::{BigEndian, LittleEndian};
use flac_codec::decode::{FlacByteReader, FlacChannelReader, FlacSampleReader};
use flacref::dec::{decode_file, Rules};
use flacref::rng::Rng;
use flacref::sgen::*;
use std::io::{BufRead, Cursor, Read, Seek, SeekFrom};

#[derive(Debug, Clone, Copy, PartialEq, Eq)]
pub enum Op {
    Read(usize),
    Fill,
    /// consume min(k, available after a fill)
    FillConsume(usize),
    /// absolute target: PCM frame (sample/channel readers) or byte (byte reader)
    Seek(u64),
    /// byte reader only
    SeekCur(i64),
    SeekEnd(i64),
    /// terminal: drain the rest with read_to_end / the iterator / read until EOS
    Drain(u8),
    /// non-terminal `read_to_end` (sample and byte readers): must deliver exactly the rest, after
    /// which the history goes on (further reads signal end of stream, seeks still work)
    ReadToEnd,
}

pub struct TestFile {
    pub label: String,
    pub bytes: Vec<u8>,
    pub channels: usize,
    pub bps: u32,
    pub pcm: Vec<i32>,
    pub frame_starts: Vec<u64>,
    pub total_known: bool,
}

impl TestFile {
    pub fn frames(&self) -> u64 {
        (self.pcm.len() / self.channels) as u64
    }
}

pub fn make_file(rng: &mut Rng, big: bool) -> Option<TestFile> {
    if rng.chance(1, 2) {
        let mut cfg = EncCfg::random(rng);
        cfg.block_size = *rng.pick(&[16u16, 32, 64, 192, 256, 576, 1024]);
        cfg.max_lpc = *rng.pick(&[None, Some(4), Some(8)]);
        cfg.max_part = rng.below(6) as u32;
        let nblocks = rng.usize(1, if big { 40 } else { 12 });
        let frames = nblocks * cfg.block_size as usize + rng.usize(0, cfg.block_size as usize - 1);
        let frames = frames.min(if big { 30000 } else { 6000 }).max(1);
        let mut r2 = Rng::new(rng.next());
        let pcm = flacref::pcm::generate(flacref::pcm::Signal::PositionCoded, cfg.channels as usize, cfg.bps, frames, &mut r2);
        let mut bytes = encode(&cfg, Front::Sample, &pcm).ok()?;
        // a third of these files get their seek table from `generate_seektable` (installed with
        // `update_file`), the documented way to add one afterwards: readers then seek by its points
        let mut regenerated = "";
        if rng.chance(1, 3) {
            if let Some(b) = regenerate_table(&bytes, rng) {
                bytes = b;
                regenerated = " table=generate_seektable";
            }
        }
        let d = decode_file(&bytes, &Rules::LENIENT).ok()?;
        if d.interleaved() != pcm {
            return None;
        }
        Some(TestFile {
            label: format!("crate-encoded ch{} bps{} bs{} seek {:?}{regenerated} frames {}", cfg.channels, cfg.bps, cfg.block_size, cfg.seek, frames),
            channels: cfg.channels as usize,
            bps: cfg.bps,
            pcm,
            frame_starts: d.frames.iter().map(|f| f.first_sample).collect(),
            total_known: true,
            bytes,
        })
    } else {
        let mut c = c03::random_case(rng, big);
        // position-coded content makes misplacement self-describing
        let total = c.pcm[0].len();
        let salt = rng.next();
        for (ch, v) in c.pcm.iter_mut().enumerate() {
            for (i, s) in v.iter_mut().enumerate() {
                *s = flacref::pcm::position_value(i as u64, ch, c.params.bps as u32, salt);
            }
        }
        let _ = total;
        c.params.seek = match rng.below(7) {
            0 => SeekMode::None,
            1 => SeekMode::Empty,
            2 => SeekMode::EveryFrame,
            3 => SeekMode::Every(rng.usize(2, 5)),
            4 => SeekMode::WithPlaceholders(rng.usize(1, 4), rng.usize(1, 5)),
            5 => SeekMode::OnlyPlaceholders(rng.usize(1, 4)),
            _ => SeekMode::Every(3),
        };
        c.params.md5 = Md5Mode::Correct;
        c.params.start_number = 0;
        let g = build_stream(&c.params, &c.pcm, &c.plans);
        let d = decode_file(&g.bytes, &Rules::LENIENT).ok()?;
        if d.pcm != c.pcm {
            return None;
        }
        Some(TestFile {
            label: format!("generated ch{} bps{} variable={} seek {:?} frames {} total_known={}", c.params.channels, c.params.bps, c.params.variable, c.params.seek, d.pcm[0].len(), c.params.total_known),
            channels: c.params.channels as usize,
            bps: c.params.bps as u32,
            pcm: d.interleaved(),
            frame_starts: d.frames.iter().map(|f| f.first_sample).collect(),
            total_known: c.params.total_known,
            bytes: g.bytes,
        })
    }
}

fn regenerate_table(bytes: &[u8], rng: &mut Rng) -> Option<Vec<u8>> {
    use flac_codec::encode::{generate_seektable, SeekTableInterval};
    use flac_codec::metadata::{self, BlockList};
    let iv = if rng.chance(2, 3) { SeekTableInterval::Frames(std::num::NonZero::new(rng.usize(1, 4))?) } else { SeekTableInterval::Seconds(std::num::NonZero::new(1u8)?) };
    mon::guard(|| {
        let table = generate_seektable(Cursor::new(bytes), iv).ok()?;
        let mut orig = crate::io::Mem::with_data(bytes.to_vec());
        let mut rb = crate::io::Mem::new();
        let rebuilt = {
            let rbr = &mut rb;
            metadata::update_file(&mut orig, move || Ok(rbr), |bl: &mut BlockList| -> Result<(), flac_codec::Error> {
                bl.insert(table);
                Ok(())
            })
            .ok()?
        };
        Some(if rebuilt { rb.data } else { orig.data })
    })
    .ok()
    .flatten()
}

fn pick_target(rng: &mut Rng, f: &TestFile, unit_per_frame: u64) -> u64 {
    let total = f.frames();
    let t = match rng.below(9) {
        0 => 0,
        1 => *rng.pick(&f.frame_starts),
        2 => rng.pick(&f.frame_starts).saturating_sub(1),
        3 => *rng.pick(&f.frame_starts) + 1,
        4 => total.saturating_sub(1),
        5 => total,
        6 => total + 1,
        7 => total + rng.below(100000),
        _ => rng.below(total + 1),
    };
    // byte reader: also land inside a PCM frame
    if unit_per_frame > 1 {
        t * unit_per_frame + if rng.chance(1, 3) { rng.below(unit_per_frame) } else { 0 }
    } else {
        t
    }
}

pub fn random_history(rng: &mut Rng, f: &TestFile, seekable: bool, byte_reader: bool, len: usize) -> Vec<Op> {
    let upf = if byte_reader { (f.bps.div_ceil(8) as u64) * f.channels as u64 } else { 1 };
    let sizes = [1usize, 2, 3, f.channels, f.channels + 1, 7, 64, 255, 4096, 100000];
    let mut ops = vec![];
    for _ in 0..len {
        if rng.chance(1, 25) {
            ops.push(Op::ReadToEnd);
            continue;
        }
        let op = match rng.below(if seekable { 10 } else { 6 }) {
            0 | 1 => Op::Read(*rng.pick(&sizes)),
            2 => Op::Fill,
            3..=5 => Op::FillConsume(*rng.pick(&sizes)),
            6 if byte_reader => Op::SeekCur(rng.range(-300, 300)),
            7 if byte_reader => Op::SeekEnd(-(rng.below(400) as i64) + if rng.chance(1, 8) { 500 } else { 0 }),
            _ => Op::Seek(pick_target(rng, f, upf)),
        };
        ops.push(op);
    }
    if rng.chance(1, 2) {
        ops.push(Op::Drain(rng.below(3) as u8));
    }
    ops
}

thread_local! {
    /// set while a history runs on a source that fails one read (transient I/O error): an error
    /// returned by the reader is then legitimate, leaves the position unspecified, and the history
    /// goes on - the next successful seek must land exactly again
    static FLAKY: std::cell::Cell<bool> = const { std::cell::Cell::new(false) };
}
fn flaky() -> bool {
    FLAKY.with(|f| f.get())
}

pub struct Outcome {
    pub divergence: Option<String>,
    pub successful_seek_then_data: u32,
    pub failed_seeks: u32,
    pub items_checked: u64,
    pub reached_eos: bool,
}

fn diverge(step: usize, op: &Op, msg: String) -> Option<String> {
    Some(format!("step {step} {op:?}: {msg}"))
}

/// Sample reader history.  Model cursor is in interleaved samples.
pub fn run_sample<R: Read + Seek>(src: R, f: &TestFile, ops: &[Op], seekable: bool) -> Outcome {
    let mut out = Outcome { divergence: None, successful_seek_then_data: 0, failed_seeks: 0, items_checked: 0, reached_eos: false };
    let mut rd = match if seekable { FlacSampleReader::new_seekable(src) } else { FlacSampleReader::new(src) } {
        Ok(r) => r,
        Err(_) if flaky() => return out,
        Err(e) => {
            out.divergence = Some(format!("open failed: {e:?}"));
            return out;
        }
    };
    let model = &f.pcm;
    let ch = f.channels;
    let mut cur: Option<usize> = Some(0); // None: position unspecified after a failed seek
    let mut after_seek = false;
    for (step, op) in ops.iter().enumerate() {
        match *op {
            Op::Read(n) => {
                let Some(c) = cur else { continue };
                let mut buf = vec![0i32; n];
                match rd.read(&mut buf) {
                    Ok(k) => {
                        if k > n || model.get(c..c + k) != Some(&buf[..k]) {
                            out.divergence = diverge(step, op, format!("returned {k} samples at model position {c}: got {:?} expected {:?}", &buf[..k.min(6)], &model[c.min(model.len())..(c + k.min(6)).min(model.len())]));
                            return out;
                        }
                        if k == 0 && c < model.len() {
                            out.divergence = diverge(step, op, format!("end of stream signalled at sample {c} of {}", model.len()));
                            return out;
                        }
                        if k == 0 {
                            out.reached_eos = true;
                        }
                        if k > 0 && after_seek {
                            out.successful_seek_then_data += 1;
                            after_seek = false;
                        }
                        out.items_checked += k as u64;
                        cur = Some(c + k);
                    }
                    Err(e) => {
                        if flaky() {
                            cur = None;
                            continue;
                        }
                        out.divergence = diverge(step, op, format!("error {e:?} at model position {c}"));
                        return out;
                    }
                }
            }
            Op::Fill | Op::FillConsume(_) => {
                let Some(c) = cur else { continue };
                let got: Vec<i32> = match rd.fill_buf() {
                    Ok(b) => b.to_vec(),
                    Err(e) => {
                        if flaky() {
                            cur = None;
                            continue;
                        }
                        out.divergence = diverge(step, op, format!("error {e:?} at model position {c}"));
                        return out;
                    }
                };
                if model.get(c..c + got.len()) != Some(&got[..]) {
                    out.divergence = diverge(step, op, format!("buffer of {} samples does not match the model at {c}", got.len()));
                    return out;
                }
                if got.is_empty() && c < model.len() {
                    out.divergence = diverge(step, op, format!("end of stream signalled at sample {c} of {}", model.len()));
                    return out;
                }
                if got.is_empty() {
                    out.reached_eos = true;
                }
                if !got.is_empty() && after_seek {
                    out.successful_seek_then_data += 1;
                    after_seek = false;
                }
                if let Op::FillConsume(k) = *op {
                    let k = k.min(got.len());
                    rd.consume(k);
                    out.items_checked += k as u64;
                    cur = Some(c + k);
                }
            }
            Op::Seek(t) => {
                let total = (model.len() / ch) as u64;
                match rd.seek(t) {
                    Ok(()) => {
                        if !seekable {
                            out.divergence = diverge(step, op, "seek succeeded on a reader opened with new()".into());
                            return out;
                        }
                        if t > total {
                            out.divergence = diverge(step, op, format!("seek beyond the end ({t} > {total}) succeeded"));
                            return out;
                        }
                        cur = Some(t as usize * ch);
                        after_seek = true;
                    }
                    Err(e) => {
                        if seekable && t <= total && !flaky() {
                            out.divergence = diverge(step, op, format!("seek to {t} (<= {total}) failed: {e:?}"));
                            return out;
                        }
                        out.failed_seeks += 1;
                        cur = None;
                    }
                }
            }
            Op::ReadToEnd => {
                let Some(c) = cur else { continue };
                let mut v = vec![];
                match rd.read_to_end(&mut v) {
                    Ok(k) => {
                        if k != v.len() || model.get(c..) != Some(&v[..]) {
                            out.divergence = diverge(step, op, format!("read_to_end returned {k} / appended {} samples from position {c}, the model has {} left (or content differs)", v.len(), model.len().saturating_sub(c)));
                            return out;
                        }
                        if !v.is_empty() && after_seek {
                            out.successful_seek_then_data += 1;
                            after_seek = false;
                        }
                        out.items_checked += v.len() as u64;
                        out.reached_eos = true;
                        cur = Some(model.len());
                    }
                    Err(e) => {
                        if flaky() {
                            cur = None;
                            continue;
                        }
                        out.divergence = diverge(step, op, format!("error {e:?} at model position {c}"));
                        return out;
                    }
                }
            }
            Op::SeekCur(_) | Op::SeekEnd(_) => {}
            Op::Drain(how) => {
                let Some(c) = cur else { continue };
                let rest: Result<Vec<i32>, String> = match how {
                    0 => {
                        let mut v = vec![];
                        rd.read_to_end(&mut v).map(|_| v).map_err(|e| crate::api::show(&e))
                    }
                    1 => rd.into_iter().collect::<Result<Vec<_>, _>>().map_err(|e| crate::api::show(&e)),
                    _ => {
                        let mut v = vec![];
                        let mut buf = vec![0i32; 1000];
                        loop {
                            match rd.read(&mut buf) {
                                Ok(0) => break Ok(v),
                                Ok(k) => v.extend_from_slice(&buf[..k]),
                                Err(e) => break Err(crate::api::show(&e)),
                            }
                        }
                    }
                };
                match rest {
                    Ok(v) => {
                        if model.get(c..) != Some(&v[..]) {
                            out.divergence = diverge(step, op, format!("drained {} samples from position {c}, model has {} left (or content differs)", v.len(), model.len().saturating_sub(c)));
                        }
                        out.items_checked += v.len() as u64;
                        out.reached_eos = true;
                    }
                    Err(_) if flaky() => {}
                    Err(e) => out.divergence = diverge(step, op, format!("error {e}")),
                }
                return out;
            }
        }
    }
    out
}

/// Channel reader history.  Model cursor in PCM frames.
pub fn run_channel<R: Read + Seek>(src: R, f: &TestFile, ops: &[Op], seekable: bool) -> Outcome {
    let mut out = Outcome { divergence: None, successful_seek_then_data: 0, failed_seeks: 0, items_checked: 0, reached_eos: false };
    let mut rd = match if seekable { FlacChannelReader::new_seekable(src) } else { FlacChannelReader::new(src) } {
        Ok(r) => r,
        Err(_) if flaky() => return out,
        Err(e) => {
            out.divergence = Some(format!("open failed: {e:?}"));
            return out;
        }
    };
    let ch = f.channels;
    let total = f.frames() as usize;
    let mut cur: Option<usize> = Some(0);
    let mut after_seek = false;
    for (step, op) in ops.iter().enumerate() {
        match *op {
            Op::Read(k) | Op::FillConsume(k) => {
                let Some(c) = cur else { continue };
                let take;
                {
                    let b = match rd.fill_buf() {
                        Ok(b) => b,
                        Err(e) => {
                            if flaky() {
                                cur = None;
                                continue;
                            }
                            out.divergence = diverge(step, op, format!("error {e:?} at frame {c}"));
                            return out;
                        }
                    };
                    if b.len() != ch || b.iter().any(|x| x.len() != b[0].len()) {
                        out.divergence = diverge(step, op, format!("returned {} channels / ragged lengths", b.len()));
                        return out;
                    }
                    let l = b[0].len();
                    if c + l > total {
                        out.divergence = diverge(step, op, format!("returned {l} frames at {c}, only {} left", total - c.min(total)));
                        return out;
                    }
                    for (ci, chan) in b.iter().enumerate() {
                        for (i, s) in chan.iter().enumerate() {
                            if f.pcm[(c + i) * ch + ci] != *s {
                                out.divergence = diverge(step, op, format!("channel {ci} frame {} is {s}, expected {}", c + i, f.pcm[(c + i) * ch + ci]));
                                return out;
                            }
                        }
                    }
                    if l == 0 && c < total {
                        out.divergence = diverge(step, op, format!("end of stream signalled at frame {c} of {total}"));
                        return out;
                    }
                    if l == 0 {
                        out.reached_eos = true;
                    }
                    if l > 0 && after_seek {
                        out.successful_seek_then_data += 1;
                        after_seek = false;
                    }
                    take = k.min(l);
                }
                rd.consume(take);
                out.items_checked += take as u64;
                cur = Some(c + take);
            }
            Op::Fill => {}
            Op::Seek(t) => match rd.seek(t) {
                Ok(()) => {
                    if !seekable {
                        out.divergence = diverge(step, op, "seek succeeded on a reader opened with new()".into());
                        return out;
                    }
                    if t as usize > total {
                        out.divergence = diverge(step, op, format!("seek beyond the end ({t} > {total}) succeeded"));
                        return out;
                    }
                    cur = Some(t as usize);
                    after_seek = true;
                }
                Err(e) => {
                    if seekable && t as usize <= total && !flaky() {
                        out.divergence = diverge(step, op, format!("seek to {t} (<= {total}) failed: {e:?}"));
                        return out;
                    }
                    out.failed_seeks += 1;
                    cur = None;
                }
            },
            Op::SeekCur(_) | Op::SeekEnd(_) => {}
            Op::Drain(_) => {
                let Some(mut c) = cur else { continue };
                loop {
                    let l;
                    {
                        let b = match rd.fill_buf() {
                            Ok(b) => b,
                            Err(_) if flaky() => return out,
                            Err(e) => {
                                out.divergence = diverge(step, op, format!("error {e:?}"));
                                return out;
                            }
                        };
                        l = b[0].len();
                        if c + l > total {
                            out.divergence = diverge(step, op, format!("drain returned {l} frames at {c} of {total}"));
                            return out;
                        }
                        for (ci, chan) in b.iter().enumerate() {
                            for (i, s) in chan.iter().enumerate() {
                                if f.pcm[(c + i) * ch + ci] != *s {
                                    out.divergence = diverge(step, op, format!("channel {ci} frame {} wrong", c + i));
                                    return out;
                                }
                            }
                        }
                    }
                    if l == 0 {
                        break;
                    }
                    rd.consume(l);
                    c += l;
                    out.items_checked += l as u64;
                }
                if c != total {
                    out.divergence = diverge(step, op, format!("end of stream at frame {c} of {total}"));
                }
                out.reached_eos = true;
                // idempotent end of stream
                for _ in 0..5 {
                    if let Ok(b) = rd.fill_buf() {
                        if b.iter().any(|x| !x.is_empty()) {
                            out.divergence = diverge(step, op, "data returned after end of stream".into());
                        }
                    }
                }
                return out;
            }
            // the per-channel reader has no read_to_end
            Op::ReadToEnd => {}
        }
    }
    out
}

/// Byte reader history.  Model = PCM serialised at ceil(bps/8) bytes; cursor in bytes.
pub fn run_byte<R: Read + Seek, E: flac_codec::byteorder::Endianness>(src: R, f: &TestFile, ops: &[Op], seekable: bool, be: bool) -> Outcome {
    let mut out = Outcome { divergence: None, successful_seek_then_data: 0, failed_seeks: 0, items_checked: 0, reached_eos: false };
    let r: Result<FlacByteReader<R, E>, _> = if seekable { FlacByteReader::new_seekable(src) } else { FlacByteReader::new(src) };
    let mut rd = match r {
        Ok(r) => r,
        Err(_) if flaky() => return out,
        Err(e) => {
            out.divergence = Some(format!("open failed: {e:?}"));
            return out;
        }
    };
    let model = flacref::pcm::to_bytes(&f.pcm, f.bps, be);
    let len = model.len() as u64;
    let mut cur: Option<u64> = Some(0);
    let mut after_seek = false;
    for (step, op) in ops.iter().enumerate() {
        match *op {
            Op::Read(n) => {
                let Some(c) = cur else { continue };
                let mut buf = vec![0u8; n];
                match rd.read(&mut buf) {
                    Ok(k) => {
                        let c = c as usize;
                        if model.get(c..c + k) != Some(&buf[..k]) {
                            out.divergence = diverge(step, op, format!("returned {k} bytes at byte {c} that differ from the serialised PCM"));
                            return out;
                        }
                        if k == 0 && (c as u64) < len {
                            out.divergence = diverge(step, op, format!("end of stream signalled at byte {c} of {len}"));
                            return out;
                        }
                        if k == 0 {
                            out.reached_eos = true;
                        }
                        if k > 0 && after_seek {
                            out.successful_seek_then_data += 1;
                            after_seek = false;
                        }
                        out.items_checked += k as u64;
                        cur = Some((c + k) as u64);
                    }
                    Err(e) => {
                        if flaky() {
                            cur = None;
                            continue;
                        }
                        out.divergence = diverge(step, op, format!("error {e:?} at byte {c}"));
                        return out;
                    }
                }
            }
            Op::Fill | Op::FillConsume(_) => {
                let Some(c) = cur else { continue };
                let got: Vec<u8> = match rd.fill_buf() {
                    Ok(b) => b.to_vec(),
                    Err(e) => {
                        if flaky() {
                            cur = None;
                            continue;
                        }
                        out.divergence = diverge(step, op, format!("error {e:?} at byte {c}"));
                        return out;
                    }
                };
                let cu = c as usize;
                if model.get(cu..cu + got.len()) != Some(&got[..]) {
                    out.divergence = diverge(step, op, format!("buffer of {} bytes does not match the model at byte {cu}", got.len()));
                    return out;
                }
                if got.is_empty() && c < len {
                    out.divergence = diverge(step, op, format!("end of stream signalled at byte {c} of {len}"));
                    return out;
                }
                if got.is_empty() {
                    out.reached_eos = true;
                }
                if !got.is_empty() && after_seek {
                    out.successful_seek_then_data += 1;
                    after_seek = false;
                }
                if let Op::FillConsume(k) = *op {
                    let k = k.min(got.len());
                    rd.consume(k);
                    out.items_checked += k as u64;
                    cur = Some(c + k as u64);
                }
            }
            Op::Seek(_) | Op::SeekCur(_) | Op::SeekEnd(_) => {
                let (from, want): (SeekFrom, Option<u64>) = match *op {
                    Op::Seek(t) => (SeekFrom::Start(t), Some(t)),
                    Op::SeekCur(d) => match cur {
                        Some(c) => (SeekFrom::Current(d), c.checked_add_signed(d)),
                        None => continue,
                    },
                    Op::SeekEnd(d) => (SeekFrom::End(d), if f.total_known { len.checked_add_signed(d) } else { None }),
                    _ => unreachable!(),
                };
                let legal = seekable && matches!(want, Some(w) if w <= len) && !(matches!(op, Op::SeekEnd(d) if *d > 0));
                match rd.seek(from) {
                    Ok(p) => {
                        if !legal {
                            // End(+d) and positions past the end must fail
                            out.divergence = diverge(step, op, format!("seek succeeded (returned {p}) although the target {want:?} is outside 0..={len} or the reader is not seekable"));
                            return out;
                        }
                        if Some(p) != want {
                            out.divergence = diverge(step, op, format!("seek returned position {p}, expected {want:?}"));
                            return out;
                        }
                        cur = Some(p);
                        after_seek = true;
                    }
                    Err(e) => {
                        if legal && !(matches!(op, Op::SeekEnd(_)) && !f.total_known) && !flaky() {
                            out.divergence = diverge(step, op, format!("legal seek to {want:?} failed: {e:?}"));
                            return out;
                        }
                        out.failed_seeks += 1;
                        // a failed relative seek of 0 distance etc. leaves the position unspecified
                        cur = None;
                    }
                }
                // position probe
                if let Some(c) = cur {
                    match rd.seek(SeekFrom::Current(0)) {
                        Ok(p) if p == c => {}
                        Ok(p) => {
                            out.divergence = diverge(step, op, format!("position probe Current(0) says {p}, model says {c}"));
                            return out;
                        }
                        Err(e) => {
                            out.divergence = diverge(step, op, format!("position probe failed: {e:?}"));
                            return out;
                        }
                    }
                }
            }
            Op::Drain(_) => {
                let Some(c) = cur else { continue };
                let mut v = vec![];
                match rd.read_to_end(&mut v) {
                    Ok(_) => {
                        if model.get(c as usize..) != Some(&v[..]) {
                            out.divergence = diverge(step, op, format!("drained {} bytes from byte {c}, model has {} left (or content differs)", v.len(), len - c.min(len)));
                        }
                        out.items_checked += v.len() as u64;
                        out.reached_eos = true;
                        let mut b = [0u8; 16];
                        for _ in 0..5 {
                            if let Ok(k) = rd.read(&mut b) {
                                if k > 0 {
                                    out.divergence = diverge(step, op, "data returned after end of stream".into());
                                }
                            }
                        }
                    }
                    Err(_) if flaky() => {}
                    Err(e) => out.divergence = diverge(step, op, format!("error {e:?}")),
                }
                return out;
            }
            Op::ReadToEnd => {
                let Some(c) = cur else { continue };
                let mut v = vec![];
                match rd.read_to_end(&mut v) {
                    Ok(k) => {
                        if k != v.len() || model.get(c as usize..) != Some(&v[..]) {
                            out.divergence = diverge(step, op, format!("read_to_end returned {k} / appended {} bytes from byte {c}, the model has {} left (or content differs)", v.len(), len - c.min(len)));
                            return out;
                        }
                        if !v.is_empty() && after_seek {
                            out.successful_seek_then_data += 1;
                            after_seek = false;
                        }
                        out.items_checked += v.len() as u64;
                        out.reached_eos = true;
                        cur = Some(len);
                    }
                    Err(e) => {
                        if flaky() {
                            cur = None;
                            continue;
                        }
                        out.divergence = diverge(step, op, format!("error {e:?} at byte {c}"));
                        return out;
                    }
                }
            }
        }
    }
    out
}

#[derive(Debug, Clone, Copy, PartialEq, Eq)]
pub enum Which {
    Sample,
    Channel,
    ByteLE,
    ByteBE,
}

#[derive(Debug, Clone)]
pub enum Source {
    Cursor,
    /// the FLAC stream starts `n` bytes into the underlying reader (foreign data in front of
    /// it, e.g. an ID3v2 tag the caller skipped); the reader is handed over positioned at `n`
    Prefixed(usize),
    /// a seekable source that hands out at most 64 bytes per read and whose k-th read fails once
    /// with an I/O error (then works again)
    Flaky(u64),
    Chunks(Vec<usize>),
    Split(usize),
}

fn ops_json(ops: &[Op]) -> J {
    J::Arr(ops.iter().map(|o| J::Str(format!("{o:?}"))).collect())
}

fn parse_op(s: &str) -> Option<Op> {
    let (name, arg) = s.split_once('(').map(|(a, b)| (a, b.trim_end_matches(')'))).unwrap_or((s, ""));
    Some(match name {
        "Read" => Op::Read(arg.parse().ok()?),
        "Fill" => Op::Fill,
        "FillConsume" => Op::FillConsume(arg.parse().ok()?),
        "Seek" => Op::Seek(arg.parse().ok()?),
        "SeekCur" => Op::SeekCur(arg.parse().ok()?),
        "SeekEnd" => Op::SeekEnd(arg.parse().ok()?),
        "Drain" => Op::Drain(arg.parse().ok()?),
        "ReadToEnd" => Op::ReadToEnd,
        _ => return None,
    })
}

pub fn run_history(rep: &mut Report, prop: &str, f: &TestFile, which: Which, seekable: bool, source: &Source, ops: &[Op]) {
    rep.eval();
    rep.count("reader", format!("{which:?}{}", if seekable { "/seekable" } else { "" }));
    rep.count("source", match source {
        Source::Cursor => "cursor",
        Source::Prefixed(_) => "cursor-with-foreign-prefix",
        Source::Flaky(_) => "seekable-with-one-failing-read",
        Source::Chunks(_) => "chunked",
        Source::Split(_) => "two-chunk-split",
    });
    for o in ops {
        rep.count("op", format!("{o:?}").split('(').next().unwrap_or(""));
    }
    let bytes = f.bytes.clone();
    let obs = mon::observe(|| {
        macro_rules! go {
            ($src:expr) => {
                match which {
                    Which::Sample => run_sample($src, f, ops, seekable),
                    Which::Channel => run_channel($src, f, ops, seekable),
                    Which::ByteLE => run_byte::<_, LittleEndian>($src, f, ops, seekable, false),
                    Which::ByteBE => run_byte::<_, BigEndian>($src, f, ops, seekable, true),
                }
            };
        }
        match source {
            Source::Cursor => go!(Cursor::new(bytes)),
            Source::Prefixed(n) => {
                // sync-free filler so that nothing in front of the stream looks like FLAC
                let mut v: Vec<u8> = (0..*n).map(|i| b"ID3\x04junk-in-front-of-the-stream"[i % 31]).collect();
                v.extend_from_slice(&bytes);
                let mut c = Cursor::new(v);
                c.set_position(*n as u64);
                go!(c)
            }
            Source::Flaky(k) => {
                let mut m = crate::io::Mem::with_data(bytes);
                m.max_read = 64;
                m.fault = Some(crate::io::Fault { op: crate::io::Op::Read, index: *k, mode: crate::io::FaultMode::Transient });
                FLAKY.with(|f| f.set(true));
                let o = go!(m);
                FLAKY.with(|f| f.set(false));
                o
            }
            Source::Chunks(plan) => go!(Chunked::new(bytes, plan.clone())),
            Source::Split(at) => {
                // non-seekable two-chunk source
                let s = SplitSource { data: bytes, pos: 0, split: *at };
                match which {
                    Which::Sample => run_sample(NoSeek(s), f, ops, false),
                    Which::Channel => run_channel(NoSeek(s), f, ops, false),
                    Which::ByteLE => run_byte::<_, LittleEndian>(NoSeek(s), f, ops, false, false),
                    Which::ByteBE => run_byte::<_, BigEndian>(NoSeek(s), f, ops, false, true),
                }
            }
        }
    });
    rep.observe_cost(obs.cpu_us, obs.peak_alloc);
    let replay = || {
        J::obj()
            .set("file", f.label.as_str())
            .set("flac", if f.bytes.len() <= 30000 { J::hex(&f.bytes) } else { J::Null })
            .set("reader", format!("{which:?}"))
            .set("seekable", seekable)
            .set("source", format!("{source:?}"))
            .set("ops", ops_json(ops))
    };
    match obs.result {
        Err(p) => rep.violation("panic", p.signature(), format!("{prop} {which:?} on {}: {} at {}", f.label, p.msg, p.location), replay()),
        Ok(o) => {
            if let Some(d) = o.divergence {
                let class = d.split(':').nth(1).unwrap_or("").trim().chars().filter(|c| !c.is_ascii_digit()).take(40).collect::<String>();
                rep.violation("history-divergence", format!("{prop}:{which:?}:{}", class.trim()), format!("{which:?} (seekable={seekable}, source {source:?}) on {}: {d}", f.label), replay());
            }
            rep.count_n("items_checked", "n", o.items_checked);
            rep.count_n("successful_seek_then_data", "n", o.successful_seek_then_data as u64);
            rep.count_n("failed_seeks", "n", o.failed_seeks as u64);
            if o.reached_eos {
                rep.count("reached_eos", format!("{which:?}"));
            }
            let nontrivial = if prop == "C06" { o.successful_seek_then_data > 0 } else { o.items_checked > 0 };
            if nontrivial {
                rep.nontrivial(fnv(&f.bytes) ^ hash_str(&format!("{which:?}{seekable}{source:?}{ops:?}")));
            }
        }
    }
    rep.sample(|| J::obj().set("file", f.label.as_str()).set("reader", format!("{which:?}")).set("seekable", seekable).set("source", format!("{source:?}")).set("ops", ops_json(&ops[..ops.len().min(30)])));
}

/// A Read-only wrapper (hides Seek) — but the reader constructors need Seek for
/// `new_seekable` only, so give it a failing Seek.
pub struct NoSeek<R>(pub R);
impl<R: Read> Read for NoSeek<R> {
    fn read(&mut self, b: &mut [u8]) -> std::io::Result<usize> {
        self.0.read(b)
    }
}
impl<R> Seek for NoSeek<R> {
    fn seek(&mut self, _: SeekFrom) -> std::io::Result<u64> {
        Err(std::io::Error::other("source is not seekable"))
    }
}

const WHICH: [Which; 4] = [Which::Sample, Which::Channel, Which::ByteLE, Which::ByteBE];

pub fn run_c06(ctx: &Ctx, rep: &mut Report) {
    if ctx.replay.is_some() {
        return replay(ctx, rep, "C06");
    }
    let mut rng = ctx.rng(0xC06);
    let mut files = 0u64;
    while ctx.time_left() {
        let Some(f) = make_file(&mut rng, ctx.thorough) else { continue };
        files += 1;
        rep.case_begin(&f.label);
        for which in WHICH {
            for _ in 0..3 {
                let n = rng.usize(5, 60);
                let ops = random_history(&mut rng, &f, true, matches!(which, Which::ByteLE | Which::ByteBE), n);
                let source = match rng.below(6) {
                    0 | 1 => Source::Prefixed(*rng.pick(&[1usize, 10, 128, 4099])),
                    2 => Source::Flaky(rng.below(120)),
                    _ => Source::Cursor,
                };
                run_history(rep, "C06", &f, which, true, &source, &ops);
            }
            // a reader opened with new() must refuse to seek
            let ops = vec![Op::Read(5), Op::Seek(0), Op::Seek(1)];
            run_history(rep, "C06", &f, which, false, &Source::Cursor, &ops);
        }
    }
    rep.count_n("files", "n", files);
}

pub fn run_c07(ctx: &Ctx, rep: &mut Report) {
    if ctx.replay.is_some() {
        return replay(ctx, rep, "C07");
    }
    let mut rng = ctx.rng(0xC07);
    let mut files = 0u64;
    let mut exhaustive_split_files = 0u64;
    while ctx.time_left() {
        let Some(f) = make_file(&mut rng, ctx.thorough) else { continue };
        files += 1;
        rep.case_begin(&f.label);
        for which in WHICH {
            let byte = matches!(which, Which::ByteLE | Which::ByteBE);
            for si in 0..3 {
                let source = match si {
                    0 => Source::Cursor,
                    1 => Source::Chunks(vec![1]),
                    _ => Source::Chunks((0..rng.usize(1, 6)).map(|_| rng.usize(1, 50)).collect()),
                };
                let n = rng.usize(3, 40);
                let mut ops = random_history(&mut rng, &f, false, byte, n);
                if !matches!(ops.last(), Some(Op::Drain(_))) {
                    ops.push(Op::Drain(rng.below(3) as u8));
                }
                run_history(rep, "C07", &f, which, false, &source, &ops);
            }
        }
        // every two-chunk split point of small files
        if f.bytes.len() <= 2048 && (exhaustive_split_files < 2 || ctx.thorough) {
            exhaustive_split_files += 1;
            for at in 0..=f.bytes.len() {
                let which = WHICH[at % 4];
                let ops = vec![Op::FillConsume(rng.usize(1, 9)), Op::Read(rng.usize(1, 9)), Op::Drain((at % 3) as u8)];
                run_history(rep, "C07", &f, which, false, &Source::Split(at), &ops);
            }
            stream_reader_splits(rep, &f);
        }
    }
    rep.count_n("files", "n", files);
    rep.count_n("files_with_every_split_point", "n", exhaustive_split_files);
}

/// The raw-frame reader over the frames of a small file, for EVERY way a buffered source can
/// split them into two reads (and for 1-byte reads): every frame exactly once, in order.
fn stream_reader_splits(rep: &mut Report, f: &TestFile) {
    use flac_codec::decode::FlacStreamReader;
    let Ok(d) = decode_file(&f.bytes, &Rules::LENIENT) else { return };
    if d.frames.is_empty() || d.frames.iter().any(|fr| fr.rate_code == 0 || fr.bps_code == 0 || fr.rate == 0) {
        return;
    }
    let raw = f.bytes[d.frames_start..d.end.min(f.bytes.len())].to_vec();
    let run = |rep: &mut Report, label: String, src: Box<dyn BufRead>| {
        rep.eval();
        rep.count("reader", "StreamReader(raw frames)");
        let r = mon::guard(move || {
            let mut rd = FlacStreamReader::new(src);
            let mut all: Vec<i32> = vec![];
            let mut frames = 0usize;
            loop {
                match rd.read() {
                    Ok(fr) => {
                        all.extend_from_slice(fr.samples);
                        frames += 1;
                    }
                    Err(flac_codec::Error::Io(e)) if e.kind() == std::io::ErrorKind::UnexpectedEof => break Ok((all, frames)),
                    Err(e) => break Err(crate::api::show(&e)),
                }
                if frames > 100000 {
                    break Err("runaway".into());
                }
            }
        });
        let replay = || J::obj().set("file", f.label.as_str()).set("raw_frames", J::hex(&raw)).set("source", label.as_str());
        match r {
            Err(p) => rep.violation("panic", p.signature(), format!("FlacStreamReader over {label}: {} at {}", p.msg, p.location), replay()),
            Ok(Err(e)) => rep.violation("history-divergence", "C07:StreamReader:error", format!("FlacStreamReader over {label} on {}: {e}", f.label), replay()),
            Ok(Ok((all, frames))) => {
                if all != f.pcm {
                    rep.violation("history-divergence", "C07:StreamReader:frames-lost-or-repeated", format!("FlacStreamReader over {label} on {}: {frames} frames / {} samples returned, the stream has {} frames / {} samples", f.label, all.len(), d.frames.len(), f.pcm.len()), replay());
                } else {
                    rep.count_n("items_checked", "n", all.len() as u64);
                }
            }
        }
    };
    for at in 0..=raw.len() {
        let src = std::io::BufReader::new(SplitSource { data: raw.clone(), pos: 0, split: at });
        run(rep, format!("two reads split at byte {at}"), Box::new(src));
    }
    let src = std::io::BufReader::new(Chunked::new(raw.clone(), vec![1]));
    run(rep, "1-byte reads".into(), Box::new(src));
    let src = std::io::BufReader::new(Chunked::new(raw.clone(), vec![1, 2, 3, 5, 7]));
    run(rep, "1,2,3,5,7-byte reads".into(), Box::new(src));
}

fn replay(ctx: &Ctx, rep: &mut Report, prop: &str) {
    let text = std::fs::read_to_string(ctx.replay.as_ref().unwrap()).expect("replay file");
    let j = crate::json::parse(&text).expect("json");
    let r = j.get("replay").unwrap_or(&j);
    let (Some(bytes), Some(ops)) = (r.get("flac").and_then(|x| x.unhex()), r.get("ops").and_then(|x| x.as_arr())) else {
        eprintln!("replay file lacks stream bytes / ops");
        return;
    };
    let ops: Vec<Op> = ops.iter().filter_map(|o| o.as_str().and_then(parse_op)).collect();
    let d = decode_file(&bytes, &Rules::LENIENT).expect("reference decode of stored stream");
    let f = TestFile {
        label: "replay".into(),
        channels: d.info.channels as usize,
        bps: d.info.bps as u32,
        pcm: d.interleaved(),
        frame_starts: d.frames.iter().map(|f| f.first_sample).collect(),
        total_known: d.info.total != 0,
        bytes,
    };
    let which = match r.get("reader").and_then(|x| x.as_str()) {
        Some("Channel") => Which::Channel,
        Some("ByteLE") => Which::ByteLE,
        Some("ByteBE") => Which::ByteBE,
        _ => Which::Sample,
    };
    let seekable = r.get("seekable").and_then(|x| x.as_bool()).unwrap_or(true);
    let src = r.get("source").and_then(|x| x.as_str()).unwrap_or("Cursor");
    let source = if src.starts_with("Split(") {
        Source::Split(src.trim_start_matches("Split(").trim_end_matches(')').parse().unwrap_or(0))
    } else if src.starts_with("Chunks(") {
        let inner = src.trim_start_matches("Chunks([").trim_end_matches("])");
        Source::Chunks(inner.split(',').filter_map(|x| x.trim().parse().ok()).collect())
    } else if src.starts_with("Flaky(") {
        Source::Flaky(src.trim_start_matches("Flaky(").trim_end_matches(')').parse().unwrap_or(0))
    } else if src.starts_with("Prefixed(") {
        Source::Prefixed(src.trim_start_matches("Prefixed(").trim_end_matches(')').parse().unwrap_or(0))
    } else {
        Source::Cursor
    };
    eprintln!("replaying {} ops on {which:?} seekable={seekable} source={source:?}", ops.len());
    run_history(rep, prop, &f, which, seekable, &source, &ops);
    for v in &rep.violations {
        eprintln!("VIOLATION-DETAIL {} {}: {}", v.kind, v.sig, v.detail);
    }
    if rep.violations.is_empty() {
        eprintln!("replay: no violation reproduced");
    }
}
