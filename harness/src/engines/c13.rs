//! C13 — success is only reported when the bytes really reached the stream:
//! exhaustive enumeration of the n-th write / flush / seek / read call failing.
//! C14 — an interrupted encode leaves decodable complete frames (crash points).

use super::common::*;
use crate::api::*;
use crate::io::{Fault, FaultMode, Mem, Op};
use crate::json::J;
use crate::mon;
use crate::report::{fnv, hash_str, Report};
use crate::Ctx;
use flac_codec::metadata::{self, BlockList};
use flacref::dec::{decode_file, Rules};
use flacref::rng::Rng;

const MODES: [FaultMode; 4] = [FaultMode::Permanent, FaultMode::Transient, FaultMode::Short, FaultMode::Interrupted];

fn small_case(rng: &mut Rng) -> (EncCfg, Front, Vec<i32>) {
    let mut cfg = EncCfg::random(rng);
    cfg.block_size = *rng.pick(&[16u16, 24, 32, 64]);
    cfg.channels = rng.usize(1, 3) as u8;
    cfg.padding = *rng.pick(&[Pad::None, Pad::Size(30), Pad::Size(200), Pad::Default]);
    let frames = cfg.block_size as usize * rng.usize(1, 4) + rng.usize(0, cfg.block_size as usize - 1);
    let mut r2 = Rng::new(rng.next());
    let pcm = flacref::pcm::generate(*rng.pick(&flacref::pcm::ALL_SIGNALS), cfg.channels as usize, cfg.bps, frames, &mut r2);
    (cfg, *rng.pick(&FRONTS), pcm)
}

fn fault_json(f: &Fault) -> J {
    J::obj().set("op", f.op.name()).set("index", f.index).set("mode", format!("{:?}", f.mode))
}

/// Scenario A: encode + finalize into a faulty sink.
fn scenario_encode(rep: &mut Report, rng: &mut Rng) {
    let (cfg, front, pcm) = small_case(rng);
    let label = format!("encode {cfg:?} {front:?} {} samples", pcm.len());
    rep.case_begin(&label);
    // fault-free run: reference bytes and call counts
    let mut m0 = Mem::new();
    if let Err(e) = encode_into(&mut m0, &cfg, front, &pcm, &[]) {
        rep.violation("encode-error", format!("encode-error:{}", err_name(&e.err)), crate::api::show(&e), J::obj().set("cfg", cfg.to_json()));
        return;
    }
    let reference = m0.data.clone();
    let mut total_points = 0u64;
    for op in [Op::Write, Op::Flush, Op::Seek] {
        let n = m0.count(op);
        rep.count_n("fault_points", format!("encode:{}", op.name()), n);
        for k in 0..n {
            for mode in MODES {
                if matches!(op, Op::Flush | Op::Seek) && mode == FaultMode::Short {
                    continue;
                }
                total_points += 1;
                let fault = Fault { op, index: k, mode };
                rep.eval();
                let obs = mon::observe(|| {
                    let mut m = Mem::new().with_fault(fault);
                    let r = encode_into(&mut m, &cfg, front, &pcm, &[]);
                    (r, m)
                });
                let replay = || J::obj().set("scenario", "encode").set("cfg", cfg.to_json()).set("front", format!("{front:?}")).set("pcm", pcm_json(&pcm)).set("fault", fault_json(&fault));
                match obs.result {
                    Err(p) => rep.violation("panic", p.signature(), format!("{label}: fault {fault:?}: {} at {}", p.msg, p.location), replay()),
                    Ok((Ok(()), m)) => {
                        rep.count("outcome", format!("encode:{:?}:ok", mode));
                        if m.data != reference {
                            rep.violation(
                                "false-success",
                                format!("ok-but-incomplete:encode:{}:{:?}", op.name(), mode),
                                format!("{label}: the {k}-th {} call failed ({mode:?}) yet encode+finalize returned Ok and the sink holds {} bytes that differ from the complete {}-byte file", op.name(), m.data.len(), reference.len()),
                                replay(),
                            );
                        }
                    }
                    Ok((Err(e), m)) => {
                        rep.count("outcome", format!("encode:{:?}:err", mode));
                        rep.count("error_variant", err_name(&e.err));
                        if m.faults_hit == 0 {
                            rep.violation("encode-error", "error-without-fault", format!("{label}: error {e:?} although no fault was delivered"), replay());
                        }
                    }
                }
            }
        }
    }
    rep.nontrivial(fnv(&reference));
    rep.sample(|| J::obj().set("scenario", "encode+finalize").set("cfg", cfg.to_json()).set("front", format!("{front:?}")).set("writes", m0.count(Op::Write)).set("flushes", m0.count(Op::Flush)).set("seeks", m0.count(Op::Seek)).set("fault_runs", total_points));
}

fn sample_blocks(rng: &mut Rng, with_padding: Option<u32>) -> BlockList {
    use flac_codec::metadata::*;
    let mut bl = BlockList::new(Streaminfo {
        minimum_block_size: 16,
        maximum_block_size: 16,
        minimum_frame_size: None,
        maximum_frame_size: None,
        sample_rate: 44100,
        channels: std::num::NonZero::new(1).unwrap(),
        bits_per_sample: bitstream_io::SignedBitCount::new::<16>(),
        total_samples: std::num::NonZero::new(48),
        md5: None,
    });
    let mut vc = VorbisComment::default();
    for i in 0..rng.usize(0, 4) {
        vc.insert(&format!("KEY{i}"), "x".repeat(rng.usize(0, 40)));
    }
    bl.insert(vc);
    if rng.chance(1, 2) {
        let n = rng.usize(0, 50);
        bl.insert(Application { id: 0x41424344, data: rng.bytes(n) });
    }
    if let Some(p) = with_padding {
        bl.insert(Padding { size: p.try_into().unwrap() });
    }
    bl
}

/// Scenario B: write_blocks into a faulty sink.
fn scenario_write_blocks(rep: &mut Report, rng: &mut Rng) {
    let pad = rng.usize(0, 100) as u32;
    let bl = sample_blocks(rng, Some(pad));
    rep.case_begin("write_blocks");
    let mut m0 = Mem::new();
    if metadata::write_blocks(&mut m0, bl.blocks()).is_err() {
        return;
    }
    let reference = m0.data.clone();
    for op in [Op::Write, Op::Flush] {
        let n = m0.count(op);
        rep.count_n("fault_points", format!("write_blocks:{}", op.name()), n);
        for k in 0..n {
            for mode in MODES {
                if op == Op::Flush && mode == FaultMode::Short {
                    continue;
                }
                let fault = Fault { op, index: k, mode };
                rep.eval();
                let obs = mon::observe(|| {
                    let mut m = Mem::new().with_fault(fault);
                    let r = metadata::write_blocks(&mut m, bl.blocks());
                    (r.map_err(|e| crate::api::show(&e)), m)
                });
                let replay = || J::obj().set("scenario", "write_blocks").set("fault", fault_json(&fault)).set("reference", J::hex(&reference));
                match obs.result {
                    Err(p) => rep.violation("panic", p.signature(), format!("write_blocks fault {fault:?}: {}", p.msg), replay()),
                    Ok((Ok(()), m)) => {
                        rep.count("outcome", format!("write_blocks:{:?}:ok", mode));
                        if m.data != reference {
                            rep.violation("false-success", format!("ok-but-incomplete:write_blocks:{}:{:?}", op.name(), mode), format!("write_blocks returned Ok with {} of {} bytes delivered", m.data.len(), reference.len()), replay());
                        }
                    }
                    Ok((Err(e), _)) => {
                        rep.count("outcome", format!("write_blocks:{:?}:err", mode));
                        rep.count("error_variant", err_name(&e));
                    }
                }
            }
        }
    }
    rep.nontrivial(fnv(&reference));
}

/// A small complete FLAC file with the given padding.
pub fn small_file(rng: &mut Rng, padding: Pad) -> Option<Vec<u8>> {
    let mut cfg = EncCfg::default_for(1, 16, 44100);
    cfg.block_size = 16;
    cfg.padding = padding;
    cfg.seek = SeekPol::Off;
    let mut r2 = Rng::new(rng.next());
    let pcm = flacref::pcm::generate(flacref::pcm::Signal::Sine, 1, 16, 40, &mut r2);
    encode(&cfg, Front::Sample, &pcm).ok()
}

/// Scenario C: update_file (in place: grow / shrink / equal; rebuild) over a faulty file object.
fn scenario_update(rep: &mut Report, rng: &mut Rng) {
    let pad = *rng.pick(&[Pad::None, Pad::Size(0), Pad::Size(10), Pad::Size(100), Pad::Size(1000)]);
    // a third of the cases judge the very FIRST update of a file as the encoder left it (a TITLE
    // of l0 characters written through `Options::tag`, padding exactly as requested - possibly none
    // at all); the others first give the file its TITLE with a fault-free update
    let fresh = rng.chance(1, 3);
    let l0 = rng.usize(0, 120);
    let file = if fresh {
        let mut cfg = EncCfg::default_for(1, 16, 44100);
        cfg.block_size = 16;
        cfg.padding = pad;
        cfg.seek = SeekPol::Off;
        let mut r2 = Rng::new(rng.next());
        let pcm = flacref::pcm::generate(flacref::pcm::Signal::Sine, 1, 16, 40, &mut r2);
        let Ok(opts) = make_options(&cfg) else { return };
        let mut c = std::io::Cursor::new(Vec::new());
        let Ok(mut w) = flac_codec::encode::FlacSampleWriter::new(&mut c, opts.tag("TITLE", "a".repeat(l0)), cfg.rate, cfg.bps, cfg.channels, None) else { return };
        if w.write(&pcm).is_err() || w.finalize().is_err() {
            return;
        }
        c.into_inner()
    } else {
        let Some(file0) = small_file(rng, pad) else { return };
        let mut f0 = Mem::with_data(file0);
        let v0 = "a".repeat(l0);
        let mut rb0 = Mem::new();
        let first = {
            let rbr = &mut rb0;
            metadata::update_file(&mut f0, move || Ok(rbr), |bl: &mut BlockList| -> Result<(), flac_codec::Error> {
                bl.update::<flac_codec::metadata::VorbisComment>(|vc| vc.set("TITLE", &v0));
                Ok(())
            })
        };
        match first {
            Ok(true) => rb0.data,
            Ok(false) => f0.data,
            Err(_) => return,
        }
    };
    rep.count("update_base", if fresh { "as the encoder left it" } else { "after an earlier update" });
    let value_len = match rng.below(3) {
        0 => l0,
        1 => l0.saturating_sub(rng.usize(1, 30)),
        _ => l0 + rng.usize(1, 150),
    };
    rep.count("update_size_relation", match value_len.cmp(&l0) {
        std::cmp::Ordering::Equal => "equal",
        std::cmp::Ordering::Less => "shrink",
        std::cmp::Ordering::Greater => "grow",
    });
    let value = "v".repeat(value_len);
    let edit = |bl: &mut BlockList| -> Result<(), flac_codec::Error> {
        bl.update::<flac_codec::metadata::VorbisComment>(|vc| vc.set("TITLE", &value));
        Ok(())
    };
    // the original hands out at most `max_read` bytes per read call in three quarters of the cases
    // (a buffered reader otherwise swallows a small file in one read and the frame copy of the
    // rebuild path never touches the file object again, leaving no read fault point inside it)
    let max_read = *rng.pick(&[0usize, 64, 300, 1000]);
    rep.count("update_source_max_read", max_read);
    rep.case_begin(&format!("update_file pad {pad:?} value_len {value_len} max_read {max_read}"));
    // fault-free
    let mut orig = Mem::with_data(file.clone());
    orig.max_read = max_read;
    let mut rebuilt0 = Mem::new();
    let r0 = {
        let rb = &mut rebuilt0;
        metadata::update_file(&mut orig, move || Ok(rb), edit)
    };
    let rebuilt_flag = match r0 {
        Ok(b) => b,
        Err(e) => {
            rep.violation("update-error", "update-failed-without-fault", crate::api::show(&e), J::Null);
            return;
        }
    };
    let ref_orig = orig.data.clone();
    let ref_rebuilt = rebuilt0.data.clone();
    // "a complete, valid result": the file the fault-free update leaves behind must still be the
    // edited metadata followed by the untouched audio (judged by the independent decoder) - the
    // fault runs below are compared with this reference, so it has to be right itself
    {
        let result = if rebuilt_flag { &ref_rebuilt } else { &ref_orig };
        let before = decode_file(&file, &Rules::LENIENT);
        let after = decode_file(result, &Rules::LENIENT);
        rep.eval();
        match (&before, &after) {
            (Ok(b), Ok(a)) if a.pcm == b.pcm && file[b.frames_start..b.end] == result[a.frames_start..a.end] => rep.count("outcome", "update:fault-free-result-valid"),
            (Ok(_), Ok(_)) => rep.violation("false-success", "ok-but-invalid:update:audio-changed", format!("update_file returned Ok({rebuilt_flag}) without any fault, but the audio frames of the result differ from the original's"), J::obj().set("scenario", "update_file").set("file", J::hex(&file)).set("value_len", value_len)),
            (Ok(_), Err(e)) => rep.violation("false-success", format!("ok-but-invalid:update:{}", e.rule), format!("update_file returned Ok({rebuilt_flag}) without any fault, but the result is not a valid stream any more: {e}"), J::obj().set("scenario", "update_file").set("file", J::hex(&file)).set("value_len", value_len)),
            _ => {}
        }
    }
    rep.count("update_path", if rebuilt_flag { "rebuilt" } else { "in-place" });
    // the path-based convenience (`metadata::update(path, ..)`, which reads and rewrites the same
    // file) must leave exactly what the in-memory update produced whenever it reports success
    {
        let path = crate::api::scratch_dir().join(format!("c13-{}-{:016x}.flac", std::process::id(), fnv(&file) ^ value_len as u64));
        if std::fs::write(&path, &file).is_ok() {
            rep.eval();
            let r = mon::guard(|| metadata::update(&path, edit).map_err(|e| crate::api::show(&e)));
            let after = std::fs::read(&path).unwrap_or_default();
            let _ = std::fs::remove_file(&path);
            let replay = || J::obj().set("scenario", "update(path)").set("file", J::hex(&file)).set("value_len", value_len);
            match r {
                Err(p) => rep.violation("panic", p.signature(), format!("metadata::update(path): {} at {}", p.msg, p.location), replay()),
                Ok(Ok(flag)) => {
                    let want = if rebuilt_flag { &ref_rebuilt } else { &ref_orig };
                    if flag != rebuilt_flag || after != *want {
                        rep.violation("false-success", "ok-but-incomplete:update:path", format!("metadata::update(path) returned Ok({flag}) but the file holds {} bytes where the in-memory update produced {} (first difference at byte {:?})", after.len(), want.len(), after.iter().zip(want.iter()).position(|(a, b)| a != b)), replay());
                    } else {
                        rep.count("outcome", "update:path:ok");
                    }
                }
                Ok(Err(e)) => rep.violation("update-error", "update-path-failed-without-fault", e, replay()),
            }
        }
    }
    // faults on the original file object (reads, writes, flushes, seeks) and on the rebuilt sink
    for target in ["original", "rebuilt"] {
        let counts = if target == "original" { orig.counts } else { rebuilt0.counts };
        for op in [Op::Read, Op::Write, Op::Flush, Op::Seek] {
            let n = counts[match op {
                Op::Write => 0,
                Op::Flush => 1,
                Op::Seek => 2,
                Op::Read => 3,
            }];
            rep.count_n("fault_points", format!("update:{target}:{}", op.name()), n);
            for k in 0..n {
                for mode in MODES {
                    if matches!(op, Op::Flush | Op::Seek) && mode == FaultMode::Short {
                        continue;
                    }
                    let fault = Fault { op, index: k, mode };
                    rep.eval();
                    let obs = mon::observe(|| {
                        let mut o = Mem::with_data(file.clone());
                        o.max_read = max_read;
                        let mut rb = Mem::new();
                        if target == "original" {
                            o.fault = Some(fault);
                        } else {
                            rb.fault = Some(fault);
                        }
                        let r = {
                            let rbr = &mut rb;
                            metadata::update_file(&mut o, move || Ok(rbr), edit)
                        };
                        (r.map_err(|e| crate::api::show(&e)), o, rb)
                    });
                    let replay = || J::obj().set("scenario", "update_file").set("file", J::hex(&file)).set("value_len", value_len).set("max_read", max_read).set("target", target).set("fault", fault_json(&fault));
                    match obs.result {
                        Err(p) => rep.violation("panic", p.signature(), format!("update_file fault on {target} {fault:?}: {} at {}", p.msg, p.location), replay()),
                        Ok((Ok(flag), o, rb)) => {
                            rep.count("outcome", format!("update:{:?}:ok", mode));
                            let good = if flag { rb.data == ref_rebuilt && o.data == file } else { o.data == ref_orig };
                            if flag != rebuilt_flag || !good {
                                rep.violation(
                                    "false-success",
                                    format!("ok-but-incomplete:update:{target}:{}:{:?}", op.name(), mode),
                                    format!("update_file returned Ok({flag}) although the {k}-th {} on the {target} failed ({mode:?}) and the result differs from the fault-free one (faults delivered: {})", op.name(), o.faults_hit + rb.faults_hit),
                                    replay(),
                                );
                            }
                        }
                        Ok((Err(e), _, _)) => {
                            rep.count("outcome", format!("update:{:?}:err", mode));
                            rep.count("error_variant", err_name(&e));
                        }
                    }
                }
            }
        }
    }
    rep.nontrivial(fnv(&file) ^ value_len as u64);
}

/// Scenario D: decoding / verifying through a source whose k-th read fails.
fn scenario_read(rep: &mut Report, rng: &mut Rng) {
    let (cfg, front, pcm) = small_case(rng);
    let Ok(file) = encode(&cfg, front, &pcm) else { return };
    rep.case_begin(&format!("read-faults {cfg:?}"));
    for kind in [Rd::SampleRead, Rd::ByteLE, Rd::Channel, Rd::SampleToEnd] {
        let mut m0 = Mem::with_data(file.clone());
        m0.max_read = 7; // many read calls
        let d0 = decode_all(&mut m0, kind, 64);
        if d0.error.is_some() || d0.samples != pcm {
            continue;
        }
        let n = m0.count(Op::Read);
        rep.count_n("fault_points", "decode:read", n);
        for k in 0..n {
            for mode in MODES {
                let fault = Fault { op: Op::Read, index: k, mode };
                rep.eval();
                let obs = mon::observe(|| {
                    let mut m = Mem::with_data(file.clone()).with_fault(fault);
                    m.max_read = 7;
                    decode_all(&mut m, kind, 64)
                });
                let replay = || J::obj().set("scenario", "decode").set("reader", format!("{kind:?}")).set("file", J::hex(&file)).set("fault", fault_json(&fault));
                match obs.result {
                    Err(p) => rep.violation("panic", p.signature(), format!("decode with read fault {fault:?}: {}", p.msg), replay()),
                    Ok(d) => match &d.error {
                        None => {
                            rep.count("outcome", format!("decode:{:?}:ok", mode));
                            if d.samples != pcm {
                                rep.violation(
                                    "swallowed-read-error",
                                    format!("read-error-swallowed:{kind:?}:{:?}", mode),
                                    format!("{kind:?}: the {k}-th read failed ({mode:?}) but decoding finished without error with {} of {} samples", d.samples.len(), pcm.len()),
                                    replay(),
                                );
                            }
                        }
                        Some(e) => {
                            rep.count("outcome", format!("decode:{:?}:err", mode));
                            rep.count("error_variant", err_name(e));
                            // whatever was delivered must still be a genuine prefix
                            if d.samples.len() > pcm.len() || d.samples[..] != pcm[..d.samples.len()] {
                                rep.violation("corrupt-delivery", format!("non-prefix-before-read-error:{kind:?}"), format!("{kind:?}: delivered samples are not a prefix"), replay());
                            }
                        }
                    },
                }
            }
        }
    }
    // verify_reader
    let mut m0 = Mem::with_data(file.clone());
    m0.max_read = 7;
    if flac_codec::decode::verify_reader(&mut m0).is_ok() {
        let n = m0.count(Op::Read);
        for k in 0..n {
            let fault = Fault { op: Op::Read, index: k, mode: FaultMode::Permanent };
            rep.eval();
            let r = mon::guard(|| {
                let mut m = Mem::with_data(file.clone()).with_fault(fault);
                m.max_read = 7;
                flac_codec::decode::verify_reader(&mut m).map_err(|e| crate::api::show(&e))
            });
            match r {
                Err(p) => rep.violation("panic", p.signature(), p.msg.clone(), J::Null),
                Ok(Ok(v)) => rep.violation("swallowed-read-error", "read-error-swallowed:verify", format!("verify_reader returned Ok({v:?}) although read {k} failed permanently"), J::obj().set("file", J::hex(&file)).set("fault", fault_json(&fault))),
                Ok(Err(_)) => rep.count("outcome", "verify:Permanent:err"),
            }
        }
    }
    rep.nontrivial(fnv(&file) ^ hash_str("read"));
}

pub fn run_c13(ctx: &Ctx, rep: &mut Report) {
    if ctx.replay.is_some() {
        let text = std::fs::read_to_string(ctx.replay.as_ref().unwrap()).expect("replay");
        eprintln!("C13 replay: the recorded case (scenario, inputs, fault) is in the file:\n{}", &text[..text.len().min(3000)]);
        return;
    }
    let mut rng = ctx.rng(0xC13);
    let mut i = 0u64;
    // at least one pass over every scenario, then until the budget is used
    while i < 8 || ctx.time_left() {
        match i % 4 {
            0 => scenario_encode(rep, &mut rng),
            1 => scenario_update(rep, &mut rng),
            2 => scenario_read(rep, &mut rng),
            _ => scenario_write_blocks(rep, &mut rng),
        }
        i += 1;
    }
    rep.exhaustive = Some(true);
    rep.notes.push("per scenario instance every index of every underlying write/flush/seek/read call was failed once per fault mode".into());
}

// ---------------------------------------------------------------- C14 -------

/// How many PCM frames more than are written an interrupted encode declares.  Mostly 1000; two
/// thirds of the cases without a seek table declare a total of 2^32 + j blocks (+ 5): the samples still outstanding at the
/// j-th frame boundary are then 2^32 (+ 5), values whose low 32 bits are zero / smaller than a
/// block - the complete frames behind that boundary must be recovered all the same.
fn declared_surplus(cfg: &EncCfg, frames: usize) -> u64 {
    let bs = cfg.block_size as u64;
    let j = (frames as u64 / bs.max(1)).min(2);
    // (only without a seek table: the placeholder points reserved for 2^32 samples would make the
    // provisional header hundreds of kilobytes, each byte of which is a crash point)
    if !matches!(cfg.seek, crate::api::SeekPol::Off) {
        return 1000;
    }
    match (frames as u64 + bs) % 3 {
        0 => (1u64 << 32) + bs * j - frames as u64,
        1 => (1u64 << 32) + bs * j + 5 - frames as u64,
        _ => 1000,
    }
}

fn encode_unfinalized(cfg: &EncCfg, front: Front, pcm: &[i32], m: &mut Mem) -> Result<(), EncErr> {
    use flac_codec::byteorder::LittleEndian;
    use flac_codec::encode::*;
    use std::io::Write;
    let opts = make_options(cfg).map_err(|e| EncErr { stage: "options", err: e })?;
    let e = |stage: &'static str| move |e: flac_codec::Error| EncErr { stage, err: crate::api::show(&e) };
    let ch = cfg.channels as usize;
    match front {
        Front::Sample | Front::ByteBE => {
            let total = cfg.declare_total.then_some(pcm.len() as u64 + ch as u64 * declared_surplus(cfg, pcm.len() / ch));
            let mut w = FlacSampleWriter::new(m, opts, cfg.rate, cfg.bps, cfg.channels, total).map_err(e("new"))?;
            w.write(pcm).map_err(e("write"))?;
            std::mem::forget(w); // crash: no finalize, no Drop
        }
        Front::ByteLE => {
            let bytes = flacref::pcm::to_bytes(pcm, cfg.bps, false);
            let total = cfg.declare_total.then_some(bytes.len() as u64 + (ch as u64 * cfg.bps.div_ceil(8) as u64) * declared_surplus(cfg, pcm.len() / ch));
            let mut w = FlacByteWriter::endian(m, LittleEndian, opts, cfg.rate, cfg.bps, cfg.channels, total).map_err(e("new"))?;
            w.write_all(&bytes).map_err(|e| EncErr { stage: "write", err: format!("Io({e:?})") })?;
            std::mem::forget(w);
        }
        Front::Channel => {
            let frames = pcm.len() / ch;
            let total = cfg.declare_total.then_some(frames as u64 + declared_surplus(cfg, frames));
            let mut w = FlacChannelWriter::new(m, opts, cfg.rate, cfg.bps, cfg.channels, total).map_err(e("new"))?;
            let chans = flacref::dec::deinterleave(pcm, ch);
            w.write(&chans).map_err(e("write"))?;
            std::mem::forget(w);
        }
    }
    Ok(())
}

fn c14_case(rep: &mut Report, rng: &mut Rng, thorough: bool) {
    let (mut cfg, front, pcm) = small_case(rng);
    cfg.seek = *rng.pick(&[SeekPol::Off, SeekPol::Default, SeekPol::Frames(1), SeekPol::Frames(2), SeekPol::Seconds(1)]);
    rep.case_begin(&format!("crash {cfg:?} {front:?} {}", pcm.len()));
    let mut m = Mem::new().recording();
    let r = mon::guard(|| encode_unfinalized(&cfg, front, &pcm, &mut m));
    match r {
        Err(p) => {
            rep.violation("panic", p.signature(), p.msg.clone(), J::obj().set("cfg", cfg.to_json()));
            return;
        }
        Ok(Err(e)) => {
            rep.violation("encode-error", format!("encode-error:{}", err_name(&e.err)), crate::api::show(&e), J::obj().set("cfg", cfg.to_json()));
            return;
        }
        Ok(Ok(())) => {}
    }
    if cfg.declare_total {
        rep.count("declared_total_class", if declared_surplus(&cfg, pcm.len() / (cfg.channels as usize).max(1)) > 1000 { "2^32 + j blocks (+5)" } else { "written + 1000" });
    }
    let full = m.data.clone();
    // frame table of the pre-finalize stream (provisional header): independent decoder, no total/md5 checks
    let mut rules = Rules::LENIENT;
    rules.total = false;
    rules.md5 = false;
    let d = match decode_file(&full, &rules) {
        Ok(d) => d,
        Err(e) => {
            rep.violation("nonconforming", format!("prefinalize-stream:{}", e.rule), format!("the bytes written before finalize are not a parseable stream: {e}"), J::obj().set("cfg", cfg.to_json()).set("bytes", J::hex(&full)));
            return;
        }
    };
    let ch = cfg.channels as usize;
    let written_frames_pcm = d.interleaved();
    if written_frames_pcm[..] != pcm[..written_frames_pcm.len().min(pcm.len())] || written_frames_pcm.len() > pcm.len() {
        rep.violation("mismatch", "prefinalize-frames-differ-from-input", "frames written so far do not hold the input's leading samples".to_string(), J::obj().set("cfg", cfg.to_json()));
        return;
    }
    // frame end offsets -> cumulative interleaved samples
    let ends: Vec<(usize, usize)> = {
        let mut acc = 0;
        d.frames.iter().map(|f| {
            acc += f.block_size as usize * ch;
            (f.offset + f.len, acc)
        }).collect()
    };
    // crash points: after every underlying call, and every byte length for small streams
    let mut points: Vec<usize> = vec![];
    let mut end = 0usize;
    for e in &m.log {
        if e.op == Op::Write && e.ok {
            end = end.max((e.pos + e.arg) as usize);
            points.push(end);
        }
    }
    rep.count_n("crash_points", "call-boundaries", points.len() as u64);
    if full.len() <= 4096 || thorough && full.len() <= 20000 {
        points.extend(0..=full.len());
        rep.count_n("crash_points", "every-byte", full.len() as u64 + 1);
    }
    points.sort_unstable();
    points.dedup();
    for p in points {
        let prefix = &full[..p];
        let expect_n = ends.iter().filter(|(e, _)| *e <= p).map(|(_, n)| *n).last().unwrap_or(0);
        for kind in [Rd::SampleRead, Rd::ByteLE, Rd::Channel] {
            rep.eval();
            // request sizes that do and do not divide a frame
            let n = [4096usize, 1, 3, 100, 300, 7][(p + kind as usize) % 6];
            let obs = mon::observe(|| decode_all(std::io::Cursor::new(prefix), kind, n));
            let replay = || J::obj().set("cfg", cfg.to_json()).set("front", format!("{front:?}")).set("read_size", n).set("prefinalize_stream", J::hex(&full)).set("crash_at", p).set("reader", format!("{kind:?}"));
            match obs.result {
                Err(pn) => rep.violation("panic", pn.signature(), format!("crash at {p}: {kind:?}: {} at {}", pn.msg, pn.location), replay()),
                Ok(dd) => {
                    let n = dd.samples.len();
                    if p < d.frames_start && dd.meta.is_none() {
                        rep.count("outcome", "prefix-shorter-than-metadata:open-fails");
                        if n != 0 {
                            rep.violation("corrupt-delivery", "samples-without-metadata", "samples delivered although the reader could not be opened".to_string(), replay());
                        }
                        continue;
                    }
                    if n != expect_n || dd.samples[..] != pcm[..n.min(pcm.len())] {
                        rep.violation(
                            "lost-or-fabricated-frames",
                            format!("crash-prefix:{kind:?}:{}", if n < expect_n { "complete-frames-not-recovered" } else { "more-than-complete-frames" }),
                            format!("crash at byte {p} of {}: {kind:?} delivered {n} samples, the prefix holds {expect_n} samples in completely written frames (error: {:?})", full.len(), dd.error),
                            replay(),
                        );
                    } else {
                        rep.count("outcome", if dd.error.is_some() { "frames-recovered-then-error" } else { "frames-recovered-then-eos" });
                    }
                    // "it never yields samples that were not written": also not when the caller polls
                    // again after the error - the prefix has simply ended
                    if dd.samples_after_error > 0 {
                        rep.violation(
                            "lost-or-fabricated-frames",
                            format!("crash-prefix:{kind:?}:samples-after-error"),
                            format!("crash at byte {p} of {}: {kind:?} reported {:?} and then handed out {} more samples when polled again", full.len(), dd.error, dd.samples_after_error),
                            replay(),
                        );
                    }
                }
            }
        }
    }
    rep.nontrivial(fnv(&full));
    rep.sample(|| J::obj().set("cfg", cfg.to_json()).set("front", format!("{front:?}")).set("prefinalize_bytes", full.len()).set("frames_written", d.frames.len()).set("sink_events", m.log.len()).set("declared_total", cfg.declare_total));
}

/// C14 through the path-based constructors: a finished (longer) file from an earlier run is being
/// overwritten when the process dies before finalize.  Whatever is on disk afterwards may only
/// decode to complete frames of the NEW run's leading samples - never to audio of the old file.
fn c14_path_case(rep: &mut Report, rng: &mut Rng) {
    use flac_codec::decode::FlacSampleReader;
    use flac_codec::encode::FlacSampleWriter;
    let (mut cfg, _, pcm_new) = small_case(rng);
    cfg.extras = 0;
    let ch = cfg.channels as usize;
    let mut r2 = Rng::new(rng.next());
    let pcm_old = flacref::pcm::generate(flacref::pcm::Signal::NoiseLow, ch, cfg.bps, pcm_new.len() / ch * 4 + 500, &mut r2);
    let path = crate::api::scratch_dir().join(format!("c14-{}-{:016x}.flac", std::process::id(), rng.next()));
    rep.eval();
    rep.case_begin(&format!("crash while overwriting an existing file {cfg:?} new {} old {}", pcm_new.len(), pcm_old.len()));
    rep.count("crash_scenario", "path-overwrite");
    let replay = || J::obj().set("scenario", "path-overwrite-crash").set("cfg", cfg.to_json()).set("new_pcm", pcm_json(&pcm_new));
    let r = mon::guard(|| -> Result<(), String> {
        let e = |e: flac_codec::Error| crate::api::show(&e);
        let mut w = FlacSampleWriter::create(&path, make_options(&cfg)?.overwrite(), cfg.rate, cfg.bps, cfg.channels, None).map_err(e)?;
        w.write(&pcm_old).map_err(e)?;
        w.finalize().map_err(e)?;
        let total = cfg.declare_total.then_some(pcm_new.len() as u64 + ch as u64 * 1000);
        let mut w = FlacSampleWriter::create(&path, make_options(&cfg)?.overwrite(), cfg.rate, cfg.bps, cfg.channels, total).map_err(e)?;
        w.write(&pcm_new).map_err(e)?;
        std::mem::forget(w); // crash: no finalize, no Drop, nothing buffered reaches the disk
        Ok(())
    });
    match r {
        Err(p) => rep.violation("panic", p.signature(), format!("{} at {}", p.msg, p.location), replay()),
        Ok(Err(e)) => rep.violation("encode-error", format!("encode-error:{}", err_name(&e)), e, replay()),
        Ok(Ok(())) => {
            let got = mon::guard(|| {
                let mut v: Vec<i32> = vec![];
                if let Ok(mut rd) = FlacSampleReader::open(&path) {
                    let mut buf = vec![0i32; 4096];
                    while let Ok(k) = rd.read(&mut buf) {
                        if k == 0 {
                            break;
                        }
                        v.extend_from_slice(&buf[..k]);
                    }
                }
                v
            });
            match got {
                Err(p) => rep.violation("panic", p.signature(), format!("decoding the interrupted file: {} at {}", p.msg, p.location), replay()),
                Ok(v) => {
                    if v.len() > pcm_new.len() || v[..] != pcm_new[..v.len()] {
                        rep.violation("lost-or-fabricated-frames", "crash-prefix:path:foreign-audio", format!("after a crash while overwriting an existing file the decoder delivers {} samples that are not the interrupted run's leading samples ({})", v.len(), first_diff(&v, &pcm_new[..v.len().min(pcm_new.len())])), replay());
                    } else {
                        rep.nontrivial(fnv(&flacref::pcm::to_bytes(&pcm_new, 32, false)));
                    }
                }
            }
        }
    }
    let _ = std::fs::remove_file(&path);
}

/// C14 when more audio is offered than was declared: the writer refuses the surplus
/// (`ExcessiveTotalSamples`), the caller gives up and the process ends without finalize.  Every
/// frame that was completely written before must still come back from the decoder - in
/// particular no frame may have been written that the declared length makes unreachable.
fn c14_over_offered_case(rep: &mut Report, rng: &mut Rng) {
    use flac_codec::encode::FlacSampleWriter;
    let (mut cfg, _, pcm) = small_case(rng);
    cfg.extras = 0;
    let ch = cfg.channels as usize;
    let frames = pcm.len() / ch;
    let bs = cfg.block_size as usize;
    if frames < 2 * bs {
        return;
    }
    // declare a whole number of blocks (1 .. n-1) although more is going to be offered
    let declared = bs * rng.usize(1, frames / bs - 1).max(1);
    rep.eval();
    rep.case_begin(&format!("crash after over-offering: declared {declared} PCM frames, offered {frames}, {cfg:?}"));
    rep.count("crash_scenario", "over-offered");
    let replay = || J::obj().set("scenario", "over-offered-crash").set("cfg", cfg.to_json()).set("declared_frames", declared).set("pcm", pcm_json(&pcm));
    let mut m = Mem::new();
    let r = mon::guard(|| -> Result<Result<(), String>, String> {
        let opts = make_options(&cfg)?;
        let mut w = FlacSampleWriter::new(&mut m, opts, cfg.rate, cfg.bps, cfg.channels, Some((declared * ch) as u64)).map_err(|e| crate::api::show(&e))?;
        // offered in block-sized calls, like a copy loop would
        let mut res = Ok(());
        for chunk in pcm.chunks(bs * ch) {
            if let Err(e) = w.write(chunk) {
                res = Err(crate::api::show(&e));
                break;
            }
        }
        std::mem::forget(w);
        Ok(res)
    });
    match r {
        Err(p) => rep.violation("panic", p.signature(), format!("{} at {}", p.msg, p.location), replay()),
        Ok(Err(_)) => {}
        Ok(Ok(write_result)) => {
            rep.count("over_offer_write", if write_result.is_ok() { "accepted (error deferred)" } else { "refused" });
            let mut rules = Rules::LENIENT;
            rules.total = false;
            rules.md5 = false;
            let Ok(d) = decode_file(&m.data, &rules) else { return };
            let written = d.interleaved();
            let got = mon::guard(|| decode_all(std::io::Cursor::new(&m.data[..]), Rd::SampleRead, 4096));
            match got {
                Err(p) => rep.violation("panic", p.signature(), format!("decoding: {} at {}", p.msg, p.location), replay()),
                Ok(g) => {
                    if g.samples != written {
                        rep.violation(
                            "lost-or-fabricated-frames",
                            "crash-prefix:over-offered:complete-frames-not-recovered",
                            format!("{} complete frames ({} samples) are in the stream left behind, the decoder recovers {} samples (declared {} PCM frames, {} offered; error {:?})", d.frames.len(), written.len(), g.samples.len(), declared, frames, g.error),
                            replay(),
                        );
                    } else {
                        rep.nontrivial(fnv(&m.data));
                    }
                }
            }
        }
    }
}

pub fn run_c14(ctx: &Ctx, rep: &mut Report) {
    if ctx.replay.is_some() {
        let text = std::fs::read_to_string(ctx.replay.as_ref().unwrap()).expect("replay");
        let j = crate::json::parse(&text).expect("json");
        let r = j.get("replay").unwrap_or(&j);
        if let (Some(b), Some(p)) = (r.get("prefinalize_stream").and_then(|x| x.unhex()), r.get("crash_at").and_then(|x| x.as_u64())) {
            for kind in [Rd::SampleRead, Rd::ByteLE, Rd::Channel] {
                let d = decode_all(std::io::Cursor::new(&b[..p as usize]), kind, 4096);
                eprintln!("{kind:?}: delivered {} samples, error {:?}", d.samples.len(), d.error);
            }
        }
        return;
    }
    let mut rng = ctx.rng(0xC14);
    let mut i = 0;
    while i < 3 || ctx.time_left() {
        c14_case(rep, &mut rng, ctx.thorough);
        if i % 4 == 0 {
            c14_path_case(rep, &mut rng);
        }
        if i % 4 == 2 {
            c14_over_offered_case(rep, &mut rng);
        }
        i += 1;
    }
    rep.exhaustive = Some(true);
    rep.notes.push("per case every write-call boundary and (streams <= 4 KiB) every byte length of the pre-finalize stream was used as crash point".into());
}
