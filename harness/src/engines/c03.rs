//! C03 — the crate's decoders on valid streams made by the independent
//! structure-aware generator (valid by construction, confirmed by flacref::dec).

use super::common::*;
use crate::api::*;
use crate::io::Chunked;
use crate::json::J;
use crate::mon;
use crate::report::{fnv, hash_str, Report};
use crate::Ctx;
use flacref::dec::{decode_file, deinterleave, Rules, SubKind};
use flacref::sgen::*;
use flacref::pcm::{generate, Signal, ALL_SIGNALS};
use flacref::rng::Rng;

pub struct GenCase {
    pub label: String,
    pub params: StreamParams,
    pub pcm: Vec<Vec<i32>>,
    pub plans: Vec<FramePlan>,
}

fn uniform_plans(params: &StreamParams, blocks: &[usize], sub: &SubPlan, assignment: u8) -> Vec<FramePlan> {
    blocks
        .iter()
        .map(|b| FramePlan {
            block_size: *b as u32,
            bs_coding: BsCoding::Auto,
            rate_coding: RateCoding::Auto,
            bps_coding: BpsCoding::Auto,
            assignment,
            subs: vec![sub.clone(); params.channels as usize],
            number_extra_bytes: 0,
            reserved_bit: false,
            pad_ones: false,
            malform: None,
        })
        .collect()
}

fn pcm_for(sig: Signal, ch: usize, bps: u32, total: usize, seed: u64) -> Vec<Vec<i32>> {
    let mut r = Rng::new(seed);
    deinterleave(&generate(sig, ch, bps, total, &mut r), ch)
}

/// low-amplitude smooth signal: arbitrary predictors keep residuals in range
fn gentle(ch: usize, bps: u32, total: usize, seed: u64) -> Vec<Vec<i32>> {
    let mut r = Rng::new(seed);
    let amp_bits = (bps.saturating_sub(3)).clamp(1, 12);
    let lo = -(1i64 << (amp_bits - 1));
    let hi = (1i64 << (amp_bits - 1)) - 1;
    (0..ch)
        .map(|_| {
            let mut v = 0i64;
            (0..total)
                .map(|_| {
                    v = (v + r.range(-3, 3)).clamp(lo.max(flacref::pcm::lo(bps)), hi.min(flacref::pcm::hi(bps)));
                    v as i32
                })
                .collect()
        })
        .collect()
}

/// Each-choice coverage of the frame grammar.
pub fn systematic(seed: u64) -> Vec<GenCase> {
    let mut out = Vec::new();
    let mut r = Rng::new(seed ^ 0xC03);
    // 1. every block-size code, table / 8-bit / 16-bit
    let sizes: [(usize, BsCoding); 24] = [
        (192, BsCoding::Auto),
        (576, BsCoding::Auto),
        (1152, BsCoding::Auto),
        (2304, BsCoding::Auto),
        (4608, BsCoding::Auto),
        (256, BsCoding::Auto),
        (512, BsCoding::Auto),
        (1024, BsCoding::Auto),
        (2048, BsCoding::Auto),
        (4096, BsCoding::Auto),
        (8192, BsCoding::Auto),
        (16384, BsCoding::Auto),
        (32768, BsCoding::Auto),
        (16, BsCoding::Auto),
        (100, BsCoding::Auto),
        (255, BsCoding::Auto),
        (256, BsCoding::Force8),
        (192, BsCoding::Force8),
        (192, BsCoding::Force16),
        (257, BsCoding::Auto),
        (4096, BsCoding::Force16),
        (65535, BsCoding::Auto),
        (1000, BsCoding::Auto),
        (17, BsCoding::Force16),
    ];
    for (i, (bs, coding)) in sizes.iter().enumerate() {
        let ch = 1 + i % 2;
        let params = StreamParams::simple(ch as u8, 16, 44100);
        let total = bs * 2 + 5;
        let pcm = pcm_for(Signal::SmoothRandomWalk, ch, 16, total, seed + i as u64);
        let blocks = vec![*bs, *bs, 5];
        let mut plans = uniform_plans(&params, &blocks, &SubPlan::fixed(2), 0);
        for p in plans.iter_mut() {
            p.bs_coding = *coding;
        }
        out.push(GenCase { label: format!("blocksize {bs} {coding:?}"), params, pcm, plans });
    }
    // 2. every sample-rate coding
    for rate in [0u32, 1, 8000, 16000, 22050, 24000, 32000, 44100, 48000, 88200, 96000, 176400, 192000, 11000, 255000, 12345, 65535, 44110, 655350, 64000, 700001, 1048575] {
        for coding in legal_rate_codings(rate) {
            let params = StreamParams::simple(2, 16, rate);
            let pcm = pcm_for(Signal::StereoNear, 2, 16, 300, seed + rate as u64);
            let mut plans = uniform_plans(&params, &[192, 108], &SubPlan::fixed(1), 10);
            for p in plans.iter_mut() {
                p.rate_coding = coding;
            }
            out.push(GenCase { label: format!("rate {rate} {coding:?}"), params, pcm, plans });
        }
    }
    // 3. every bit depth 1..32, STREAMINFO-referenced and (where it exists) table-coded
    for bps in 1u8..=32 {
        for coding in [BpsCoding::Streaminfo, BpsCoding::Auto] {
            let ch = if bps % 3 == 0 { 2 } else { 1 };
            let params = StreamParams::simple(ch, bps, 48000);
            let sig = if bps % 2 == 0 { Signal::NoiseFull } else { Signal::SmoothRandomWalk };
            let pcm = pcm_for(sig, ch as usize, bps as u32, 150, seed + bps as u64);
            let mut plans = uniform_plans(&params, &[100, 50], &SubPlan::fixed((bps % 5).min(4)), if ch == 2 { 8 + bps % 3 } else { 0 });
            for p in plans.iter_mut() {
                p.bps_coding = coding;
                for s in p.subs.iter_mut() {
                    s.method = (bps > 16) as u8;
                }
            }
            out.push(GenCase { label: format!("bps {bps} {coding:?}"), params, pcm, plans });
        }
    }
    // 4. LPC order 1..32 x precision {1,7,15} x shift {0,15}
    for order in 1u8..=32 {
        for precision in [1u8, 7, 15] {
            for shift in [0u8, 15] {
                let bps = [8u8, 16, 24, 32][(order as usize + precision as usize) % 4];
                let params = StreamParams::simple(1, bps, 44100);
                let pcm = gentle(1, bps as u32, 200, seed ^ ((order as u64) << 8 | precision as u64));
                let style = if precision == 1 { 1 } else { 3 };
                let sub = SubPlan {
                    kind: SubKind::Lpc(order),
                    wasted: Some(0),
                    precision,
                    shift,
                    coefs: guess_lpc(order as usize, precision, shift.min(precision.saturating_sub(2)), &mut r, style),
                    method: (order % 2) as u8,
                    part_order: (order % 3) as u8,
                    parts: vec![],
                };
                let plans = uniform_plans(&params, &[128, 72], &sub, 0);
                out.push(GenCase { label: format!("lpc order {order} precision {precision} shift {shift}"), params, pcm, plans });
            }
        }
    }
    // 5. every Rice parameter for both methods, every escape width, at several depths
    for method in [0u8, 1] {
        let kmax = if method == 0 { 14 } else { 30 };
        for k in 0..=kmax {
            let bps = [8u8, 12, 16, 20, 24, 32][k as usize % 6];
            let params = StreamParams::simple(1, bps, 44100);
            let pcm = pcm_for(Signal::NoiseFull, 1, bps as u32, 96, seed + 77 * k as u64 + method as u64);
            let sub = SubPlan {
                kind: SubKind::Fixed(1),
                wasted: Some(0),
                precision: 0,
                shift: 0,
                coefs: vec![],
                method,
                part_order: 1,
                parts: vec![PartChoice::Rice(k), PartChoice::Rice(k)],
            };
            out.push(GenCase { label: format!("rice method {method} param {k} bps {bps}"), params: params.clone(), pcm, plans: uniform_plans(&params, &[64, 32], &sub, 0) });
        }
        for extra in 0..=31u8 {
            // escape widths: the generator uses (needed width + extra) capped at 31
            let bps = [4u8, 8, 16, 24, 32][extra as usize % 5];
            let params = StreamParams::simple(1, bps, 44100);
            let sig = if extra == 0 { Signal::Constant } else { Signal::NoiseLow };
            let pcm = pcm_for(sig, 1, bps as u32, 96, seed + 991 * extra as u64);
            let sub = SubPlan {
                kind: SubKind::Fixed(if extra == 0 { 1 } else { 0 }),
                wasted: Some(0),
                precision: 0,
                shift: 0,
                coefs: vec![],
                method,
                part_order: 2,
                parts: vec![PartChoice::Escape(extra), PartChoice::Auto, PartChoice::Escape(extra / 2), PartChoice::Escape(0)],
            };
            out.push(GenCase { label: format!("escape method {method} extra {extra} bps {bps}"), params: params.clone(), pcm, plans: uniform_plans(&params, &[64, 32], &sub, 0) });
        }
    }
    // 6. wasted bits on every channel role, 33-bit side channels for all stereo modes
    for assignment in [0u8, 8, 9, 10] {
        for bps in [8u8, 16, 24, 31, 32] {
            for sig in [Signal::Wasted, Signal::StereoNear, Signal::StereoAnti, Signal::NoiseFull, Signal::AlternatingExtremes] {
                let params = StreamParams::simple(2, bps, 96000);
                let pcm = pcm_for(sig, 2, bps as u32, 120, seed + bps as u64 * 131 + assignment as u64);
                let mut sub = SubPlan::fixed(if sig == Signal::Wasted { 0 } else { 1 });
                sub.wasted = None;
                sub.method = (bps > 16) as u8;
                out.push(GenCase {
                    label: format!("stereo assignment {assignment} bps {bps} {sig:?}"),
                    params: params.clone(),
                    pcm,
                    plans: uniform_plans(&params, &[80, 40], &sub, assignment),
                });
            }
        }
    }
    // 7. coded numbers: fixed-blocksize frame numbers and variable sample numbers of every length
    for (variable, start) in [
        (false, 0u64),
        (false, 126),
        (false, 2046),
        (false, 65534),
        (false, (1 << 21) - 2),
        (false, (1 << 26) - 2),
        (false, (1 << 31) - 4),
        (true, 0),
        (true, 100),
        (true, 2000),
        (true, 65500),
        (true, (1 << 21) - 50),
        (true, (1 << 26) - 50),
        (true, (1 << 31) - 50),
        (true, (1 << 36) - 200),
    ] {
        let mut params = StreamParams::simple(1, 16, 44100);
        params.variable = variable;
        params.start_number = start;
        let pcm = pcm_for(Signal::Sine, 1, 16, 150, seed + start);
        let blocks = if variable { vec![40, 33, 50, 27] } else { vec![48, 48, 48, 6] };
        out.push(GenCase { label: format!("coded number variable={variable} start={start}"), params: params.clone(), pcm, plans: uniform_plans(&params, &blocks, &SubPlan::fixed(2), 0) });
    }
    // 8. channel counts 1..8, constant + verbatim subframes, MD5 modes, unknown totals, seek tables
    for ch in 1u8..=8 {
        for (mi, md5) in [Md5Mode::Correct, Md5Mode::Wrong, Md5Mode::Absent].into_iter().enumerate() {
            let mut params = StreamParams::simple(ch, 16, 44100);
            params.md5 = md5;
            params.total_known = (ch as usize + mi) % 2 == 0;
            params.seek = [SeekMode::None, SeekMode::EveryFrame, SeekMode::WithPlaceholders(2, 3), SeekMode::Empty, SeekMode::OnlyPlaceholders(2)][(ch as usize + mi) % 5].clone();
            if ch % 3 == 0 {
                params.extra_blocks = vec![(1, vec![0u8; 37]), (2, b"testdata".to_vec())];
            }
            let sig = [Signal::Constant, Signal::Silence, Signal::Mixed][mi];
            let pcm = pcm_for(sig, ch as usize, 16, 700, seed + ch as u64);
            let sub = SubPlan { kind: if mi == 2 { SubKind::Verbatim } else { SubKind::Constant }, ..SubPlan::verbatim() };
            out.push(GenCase { label: format!("channels {ch} md5 {md5:?}"), params: params.clone(), pcm, plans: uniform_plans(&params, &[256, 256, 188], &sub, 0) });
        }
    }
    out
}

pub fn random_case(rng: &mut Rng, big: bool) -> GenCase {
    let channels = if rng.chance(1, 2) { rng.usize(1, 2) } else { rng.usize(1, 8) } as u8;
    let bps = match rng.below(4) {
        0 => *rng.pick(&[8u8, 16, 24, 32]),
        _ => rng.usize(1, 32) as u8,
    };
    let rate = *rng.pick(&[0u32, 1, 8000, 11000, 12345, 44100, 44110, 65535, 65536, 96000, 192000, 655350, 700001, 1048575]);
    let variable = rng.chance(1, 3);
    let bs = *rng.pick(&[16usize, 17, 31, 32, 100, 192, 255, 256, 257, 576, 1024, 4096, 4608]);
    let total = rng.usize(1, if big { 4 * bs + 40 } else { 2 * bs + 40 }).min(if big { 20000 } else { 6000 });
    let sig = *rng.pick(&ALL_SIGNALS);
    let mut params = StreamParams::simple(channels, bps, rate);
    params.variable = variable;
    params.total_known = rng.chance(3, 4);
    params.md5 = *rng.pick(&[Md5Mode::Correct, Md5Mode::Correct, Md5Mode::Wrong, Md5Mode::Absent]);
    params.frame_sizes = rng.chance(1, 2);
    params.seek = match rng.below(6) {
        0 => SeekMode::None,
        1 => SeekMode::EveryFrame,
        2 => SeekMode::Every(2),
        3 => SeekMode::WithPlaceholders(3, 2),
        4 => SeekMode::OnlyPlaceholders(3),
        _ => SeekMode::Empty,
    };
    if rng.chance(1, 4) {
        params.extra_blocks.push((1, vec![0u8; rng.usize(0, 300)]));
    }
    if rng.chance(1, 6) {
        let n = rng.usize(4, 60);
        params.extra_blocks.push((2, rng.bytes(n)));
    }
    let pcm = pcm_for(sig, channels as usize, bps as u32, total, rng.next());
    // variable streams: keep every non-final block >= 16 (a block <= 14 must be last)
    let mut blocks = split_blocks(rng, total, bs, variable);
    if variable {
        // merge a short non-final block into its successor
        let mut i = 0;
        while i + 1 < blocks.len() {
            if blocks[i] < 16 {
                let b = blocks.remove(i);
                blocks[i] += b;
            } else {
                i += 1;
            }
        }
        for b in blocks.iter_mut() {
            *b = (*b).min(65535);
        }
    }
    let total2: usize = blocks.iter().sum();
    let pcm: Vec<Vec<i32>> = pcm.into_iter().map(|c| c[..total2.min(c.len())].to_vec()).collect();
    let plans = blocks.iter().map(|b| random_frame_plan(rng, &params, *b)).collect();
    GenCase { label: format!("random {sig:?}"), params, pcm, plans }
}

/// one or two 16-24 sample frames, 1-2 channels (Miri tier)
pub fn tiny_case(rng: &mut Rng) -> GenCase {
    let channels = rng.usize(1, 2) as u8;
    let bps = *rng.pick(&[8u8, 12, 16, 24, 32]);
    let mut params = StreamParams::simple(channels, bps, 44100);
    params.total_known = rng.chance(1, 2);
    let bs = *rng.pick(&[16usize, 20, 24]);
    let total = bs + rng.usize(0, 6);
    let sig = *rng.pick(&ALL_SIGNALS);
    let pcm = pcm_for(sig, channels as usize, bps as u32, total, rng.next());
    let blocks = split_blocks(rng, total, bs, false);
    let plans = blocks.iter().map(|b| random_frame_plan(rng, &params, *b)).collect();
    GenCase { label: format!("tiny {sig:?}"), params, pcm, plans }
}

fn case_json(c: &GenCase, bytes: &[u8]) -> J {
    J::obj()
        .set("label", c.label.as_str())
        .set("channels", c.params.channels)
        .set("bps", c.params.bps)
        .set("rate", c.params.rate)
        .set("variable", c.params.variable)
        .set("total_known", c.params.total_known)
        .set("md5", format!("{:?}", c.params.md5))
        .set("frames", c.plans.len())
        .set("flac", if bytes.len() <= 24000 { J::hex(bytes) } else { J::Null })
        .set("flac_len", bytes.len())
}

/// Decodes `bytes` with every reader and compares with the expectation.
pub fn judge_valid_stream(rep: &mut Report, label: &str, bytes: &[u8], expect: &[i32], params: &StreamParams, replay: &J, chunked: bool) {
    let expect_total = if params.total_known { Some((expect.len() / params.channels as usize) as u64) } else { None };
    let mut r = Rng::new(fnv(bytes));
    for kind in READERS {
        let n = *r.pick(&[1usize, 2, 3, 5, 64, 4096, 1 << 20]);
        let obs = if chunked {
            let plan = match r.below(3) {
                0 => vec![1],
                1 => vec![1, 2, 3, 5, 7],
                _ => vec![r.usize(1, 40)],
            };
            let src = Chunked::new(bytes.to_vec(), plan);
            mon::observe(|| decode_all(src, kind, n))
        } else {
            mon::observe(|| decode_all(std::io::Cursor::new(bytes), kind, n))
        };
        rep.observe_cost(obs.cpu_us, obs.peak_alloc);
        rep.count("reader", format!("{kind:?}{}", if chunked { "/chunked" } else { "" }));
        match obs.result {
            Err(p) => rep.violation("panic", format!("decode:{}", p.signature()), format!("{label} {kind:?}: {} at {}", p.msg, p.location), replay.clone()),
            Ok(d) => {
                if let Some(e) = &d.error {
                    rep.violation(
                        "decode-error",
                        format!("valid-stream-rejected:{}", err_name(e)),
                        format!("{label}: {kind:?} rejects a valid stream: {e} (after {} of {} samples)", d.samples.len(), expect.len()),
                        replay.clone(),
                    );
                    continue;
                }
                if d.samples != expect {
                    rep.violation("mismatch", format!("valid-stream-mismatch:{kind:?}"), format!("{label}: {kind:?}: {}", first_diff(&d.samples, expect)), replay.clone());
                }
                if let Some(m) = &d.meta {
                    if m.channels != params.channels || m.bps != params.bps as u32 || m.rate != params.rate || m.total != expect_total {
                        rep.violation("mismatch", "valid-stream-metadata", format!("{label}: {m:?}"), replay.clone());
                    }
                }
                if d.polls_after_eos_with_data > 0 {
                    rep.violation("mismatch", format!("data-after-eos:{kind:?}"), format!("{label}: {kind:?} returned data after end of stream"), replay.clone());
                }
            }
        }
    }
    use flac_codec::decode::Verified;
    let want = match params.md5 {
        Md5Mode::Correct => Verified::MD5Match,
        Md5Mode::Wrong => Verified::MD5Mismatch,
        Md5Mode::Absent => Verified::NoMD5,
    };
    match mon::guard(|| verify_bytes(bytes)) {
        Ok(Ok(v)) if v == want => rep.count("verify", format!("{v:?}")),
        Ok(other) => rep.violation("mismatch", format!("verify:{want:?}"), format!("{label}: verify_reader returned {other:?}, expected {want:?}"), replay.clone()),
        Err(p) => rep.violation("panic", format!("verify:{}", p.signature()), p.msg.clone(), replay.clone()),
    }
}

/// The raw-frame reader (`FlacStreamReader`) on the frames of a valid stream.  It parses each
/// frame from its own header (streamable subset), so this applies to streams whose frames all
/// carry their sample rate and bit depth explicitly; it must then return every frame, in order,
/// with exactly the samples and parameters the reference decoder derives - fixed and variable
/// block-size numbering alike.
pub fn judge_stream_reader(rep: &mut Report, label: &str, bytes: &[u8], d: &flacref::dec::Decoded, replay: &J) {
    use flac_codec::decode::FlacStreamReader;
    if d.frames.is_empty() || d.frames.iter().any(|f| f.rate_code == 0 || f.bps_code == 0 || f.rate == 0) {
        rep.count("stream_reader", "not-applicable (a frame refers to STREAMINFO)");
        return;
    }
    let raw = &bytes[d.frames_start..d.end.min(bytes.len())];
    let obs = mon::observe(|| -> Result<Vec<(Vec<i32>, u32, u8, u32)>, String> {
        let mut rd = FlacStreamReader::new(std::io::Cursor::new(raw));
        let mut out = vec![];
        loop {
            match rd.read() {
                Ok(f) => out.push((f.samples.to_vec(), f.sample_rate, f.channels, f.bits_per_sample)),
                Err(flac_codec::Error::Io(e)) if e.kind() == std::io::ErrorKind::UnexpectedEof => break,
                Err(e) => return Err(crate::api::show(&e)),
            }
            if out.len() > d.frames.len() + 4 {
                break;
            }
        }
        Ok(out)
    });
    rep.observe_cost(obs.cpu_us, obs.peak_alloc);
    rep.count("reader", "StreamReader(raw frames)");
    let got = match obs.result {
        Err(p) => {
            rep.violation("panic", format!("decode:{}", p.signature()), format!("{label} FlacStreamReader: {} at {}", p.msg, p.location), replay.clone());
            return;
        }
        Ok(Err(e)) => {
            rep.violation("decode-error", format!("valid-stream-rejected:StreamReader:{}", err_name(&e)), format!("{label}: FlacStreamReader fails on the frames of a valid stream: {e}"), replay.clone());
            return;
        }
        Ok(Ok(g)) => g,
    };
    if got.len() != d.frames.len() {
        rep.violation("mismatch", "valid-stream-mismatch:StreamReader:frame-count", format!("{label}: FlacStreamReader returned {} frames, the stream has {} (variable block size: {})", got.len(), d.frames.len(), d.frames[0].variable), replay.clone());
        return;
    }
    let mut pos = 0usize;
    for (i, (f, (samples, rate, ch, bps))) in d.frames.iter().zip(&got).enumerate() {
        let n = f.block_size as usize;
        let want = flacref::dec::interleave(&d.pcm.iter().map(|c| c[pos..pos + n].to_vec()).collect::<Vec<_>>());
        pos += n;
        if *samples != want || *rate != f.rate || *ch != f.channels || *bps != f.bps as u32 {
            rep.violation("mismatch", "valid-stream-mismatch:StreamReader", format!("{label}: frame {i}: FlacStreamReader returned rate {rate} ch {ch} bps {bps}, {}", first_diff(samples, &want)), replay.clone());
            return;
        }
    }
    rep.count("stream_reader", if d.frames[0].variable { "variable-blocksize stream ok" } else { "fixed-blocksize stream ok" });
}

pub fn run_case(rep: &mut Report, c: &GenCase) {
    rep.case_begin(&format!("{} ch{} bps{} frames{}", c.label, c.params.channels, c.params.bps, c.plans.len()));
    rep.eval();
    let g = build_stream(&c.params, &c.pcm, &c.plans);
    // generator / validator cross-check: disagreement is a harness bug, never a violation
    let mut rules = Rules::STRICT;
    rules.consecutive = c.params.start_number == 0;
    if c.params.md5 == Md5Mode::Wrong {
        rules.md5 = false;
    }
    let d = match decode_file(&g.bytes, &rules) {
        Ok(d) => d,
        Err(e) => {
            rep.inconclusive.push(format!("generator/validator disagree on '{}': {e}", c.label));
            return;
        }
    };
    if d.pcm != c.pcm {
        rep.inconclusive.push(format!("generator/validator PCM disagree on '{}'", c.label));
        return;
    }
    coverage_from_frames(rep, &d);
    rep.count_n("gen_fallbacks", "n", g.notes.fallbacks.len() as u64);
    let expect = d.interleaved();
    // non-trivial: at least one predictive subframe; distinct by stream bytes
    let predictive = d.frames.iter().any(|f| f.subframes.iter().any(|s| matches!(s.kind, SubKind::Fixed(_) | SubKind::Lpc(_))));
    if predictive {
        rep.nontrivial(fnv(&g.bytes));
    }
    let replay = case_json(c, &g.bytes);
    rep.sample(|| {
        J::obj()
            .set("label", c.label.as_str())
            .set("channels", c.params.channels)
            .set("bps", c.params.bps)
            .set("rate", c.params.rate)
            .set("variable_blocksize", c.params.variable)
            .set("frames", c.plans.len())
            .set("bytes", g.bytes.len())
            .set("first_frame_subframes", J::Arr(d.frames[0].subframes.iter().map(|s| J::Str(format!("{:?} wasted={} method={} po={}", s.kind, s.wasted, s.method, s.part_order))).collect()))
    });
    judge_valid_stream(rep, &c.label, &g.bytes, &expect, &c.params, &replay, false);
    judge_stream_reader(rep, &c.label, &g.bytes, &d, &replay);
    if g.bytes.len() <= 20000 {
        judge_valid_stream(rep, &c.label, &g.bytes, &expect, &c.params, &replay, true);
    }
}

pub fn run(ctx: &Ctx, rep: &mut Report) {
    if let Some(path) = &ctx.replay {
        let text = std::fs::read_to_string(path).expect("replay file");
        let j = crate::json::parse(&text).expect("json");
        let r = j.get("replay").unwrap_or(&j);
        if let Some(bytes) = r.get("flac").and_then(|x| x.unhex()) {
            eprintln!("replaying stored stream '{}' ({} bytes)", r.get("label").and_then(|x| x.as_str()).unwrap_or(""), bytes.len());
            match decode_file(&bytes, &Rules::LENIENT) {
                Ok(d) => {
                    let mut params = StreamParams::simple(d.info.channels, d.info.bps, d.info.rate);
                    params.total_known = d.info.total != 0;
                    params.md5 = match r.get("md5").and_then(|x| x.as_str()) {
                        Some("Wrong") => Md5Mode::Wrong,
                        Some("Absent") => Md5Mode::Absent,
                        _ => Md5Mode::Correct,
                    };
                    judge_valid_stream(rep, "replay", &bytes, &d.interleaved(), &params, r, false);
                    judge_valid_stream(rep, "replay", &bytes, &d.interleaved(), &params, r, true);
                    for v in &rep.violations {
                        eprintln!("VIOLATION-DETAIL {} {}: {}", v.kind, v.sig, v.detail);
                    }
                    if rep.violations.is_empty() {
                        eprintln!("replay: no violation reproduced");
                    }
                }
                Err(e) => eprintln!("reference decoder rejects the stored stream: {e}"),
            }
        }
        return;
    }
    let sys = systematic(ctx.seed);
    let n = sys.len();
    for (i, c) in sys.iter().enumerate() {
        if ctx.mine(i as u64) {
            run_case(rep, c);
        }
    }
    rep.notes.push(format!("systematic each-choice cases: {n}"));
    let mut rng = ctx.rng(0xC03);
    while ctx.time_left() {
        let c = random_case(&mut rng, ctx.thorough);
        run_case(rep, &c);
    }
    let _ = hash_str;
}
