//! C04 — every decoding / frame-parsing entry point is total and bounded on
//! arbitrary bytes (panic, CPU, allocation and output-volume monitors).

use super::c03;
use crate::api::*;
use crate::json::J;
use crate::mon;
use crate::report::{fnv, Report};
use crate::Ctx;
use flac_codec::byteorder::LittleEndian;
use flac_codec::decode::{FlacByteReader, FlacChannelReader, FlacSampleReader, FlacStreamReader};
use flacref::crc::{crc16, crc8};
use flacref::dec::{decode_file, Rules};
use flacref::rng::Rng;
use flacref::sgen::*;
use std::io::{Cursor, Read, Seek, SeekFrom};

/// Upper bound on samples a decoder may deliver from `n` input bytes.
pub fn output_cap(n: usize) -> usize {
    // a frame needs >= 10 bytes and carries <= 65535 * 8 samples
    (n / 10 + 1) * 65535 * 8
}

fn note_err(rep: &mut Report, what: &str, e: &str) {
    rep.count("error_variant", err_name(e));
    rep.count("entry_point_errors", what);
}

/// Drives every decoding entry point over `bytes`.  Returns the number of
/// entry points that accepted the input completely.
pub fn drive_all(rep: &mut Report, bytes: &[u8], replay: &dyn Fn() -> J, origin: &str) -> u32 {
    let n = bytes.len();
    let cap = output_cap(n);
    let mut accepted = 0u32;
    DISCARD.store(true, std::sync::atomic::Ordering::Relaxed);
    let mut check = |rep: &mut Report, name: &str, obs: mon::Observed<Result<u64, String>>| {
        rep.observe_cost(obs.cpu_us, obs.peak_alloc);
        rep.count("entry_point", name);
        if obs.cpu_us > mon::cpu_budget_us(n) {
            rep.violation("cpu", format!("cpu:{name}"), format!("{origin}: {name} used {} us CPU on {n} bytes", obs.cpu_us), replay());
        }
        if obs.peak_alloc > mon::alloc_bound(n) {
            rep.violation(
                "alloc",
                format!("alloc:{name}"),
                format!("{origin}: {name} peak allocation {} bytes on {n} input bytes (bound {})", obs.peak_alloc, mon::alloc_bound(n)),
                replay(),
            );
        }
        match obs.result {
            Err(p) => {
                rep.violation("panic", format!("{}", p.signature()), format!("{origin}: {name}: {} at {}", p.msg, p.location), replay());
                false
            }
            Ok(Err(e)) => {
                if e == "OUTPUT-CAP" {
                    rep.violation("output", format!("unbounded-output:{name}"), format!("{origin}: {name} delivered more than {cap} samples from {n} bytes"), replay());
                } else {
                    note_err(rep, name, &e);
                }
                false
            }
            Ok(Ok(_)) => true,
        }
    };
    // 1. the three file readers, non-seekable, full read
    for kind in [Rd::SampleRead, Rd::ByteLE, Rd::Channel, Rd::SampleIter] {
        let obs = mon::observe(|| {
            let d = decode_all_capped(Cursor::new(bytes), kind, 4096, cap);
            match d.error {
                Some(e) => Err(e),
                None => Ok(d.total_delivered()),
            }
        });
        if check(rep, &format!("{kind:?}"), obs) {
            accepted += 1;
        }
    }
    // 2. seekable readers: read a little, then seek to 0, mid, end, end+1 and read again
    let obs = mon::observe(|| -> Result<u64, String> {
        let mut rd = FlacSampleReader::new_seekable(Cursor::new(bytes)).map_err(|e| crate::api::show(&e))?;
        let total = flac_codec::decode::Metadata::total_samples(&rd).unwrap_or(1000);
        let mut buf = vec![0i32; 777];
        let mut got = 0u64;
        for target in [0, total / 2, total.saturating_sub(1), total, total.saturating_add(1), u64::MAX / 2] {
            match rd.seek(target) {
                Ok(()) => {
                    if let Ok(k) = rd.read(&mut buf) {
                        got += k as u64;
                    }
                }
                Err(e) => {
                    let _ = crate::api::show(&e);
                }
            }
        }
        Ok(got)
    });
    check(rep, "SampleReader.seek", obs);
    let obs = mon::observe(|| -> Result<u64, String> {
        let mut rd: FlacByteReader<_, LittleEndian> = FlacByteReader::new_seekable(Cursor::new(bytes)).map_err(|e| crate::api::show(&e))?;
        let mut buf = vec![0u8; 1000];
        let mut got = 0u64;
        for pos in [SeekFrom::Start(0), SeekFrom::Start(12345), SeekFrom::End(0), SeekFrom::End(-7), SeekFrom::Current(5), SeekFrom::Current(-3), SeekFrom::Start(u64::MAX / 4), SeekFrom::End(1)] {
            if rd.seek(pos).is_ok() {
                if let Ok(k) = rd.read(&mut buf) {
                    got += k as u64;
                }
            }
        }
        Ok(got)
    });
    check(rep, "ByteReader.seek", obs);
    let obs = mon::observe(|| -> Result<u64, String> {
        let mut rd = FlacChannelReader::new_seekable(Cursor::new(bytes)).map_err(|e| crate::api::show(&e))?;
        let total = flac_codec::decode::Metadata::total_samples(&rd).unwrap_or(1000);
        let mut got = 0u64;
        for target in [total / 3, 0, total, total.saturating_add(5)] {
            if rd.seek(target).is_ok() {
                if let Ok(b) = rd.fill_buf() {
                    let l = b.first().map(|c| c.len()).unwrap_or(0);
                    got += l as u64;
                    rd.consume(l.min(3));
                }
            }
        }
        Ok(got)
    });
    check(rep, "ChannelReader.seek", obs);
    // 3. raw stream reader until EOF (errors other than EOF are skipped, like a player would)
    let obs = mon::observe(|| -> Result<u64, String> {
        let mut rd = FlacStreamReader::new(Cursor::new(bytes));
        let mut frames = 0u64;
        let mut samples = 0usize;
        let mut iterations = 0usize;
        loop {
            iterations += 1;
            if iterations > n + 16 {
                return Err("OUTPUT-CAP".into());
            }
            match rd.read() {
                Ok(f) => {
                    frames += 1;
                    samples += f.samples.len();
                    if samples > cap {
                        return Err("OUTPUT-CAP".into());
                    }
                }
                Err(flac_codec::Error::Io(e)) if e.kind() == std::io::ErrorKind::UnexpectedEof => break,
                Err(_) => {}
            }
        }
        Ok(frames)
    });
    check(rep, "StreamReader", obs);
    // 4. verify
    let obs = mon::observe(|| verify_bytes(bytes).map(|_| 0u64));
    check(rep, "verify_reader", obs);
    // 5. metadata iterator
    let obs = mon::observe(|| -> Result<u64, String> {
        let mut k = 0;
        for b in flac_codec::metadata::read_blocks(Cursor::new(bytes)) {
            b.map_err(|e| crate::api::show(&e))?;
            k += 1;
        }
        Ok(k)
    });
    check(rep, "read_blocks", obs);
    // 6. structural parser: FrameIterator + Subframe::decode, generate_seektable
    let obs = mon::observe(|| -> Result<u64, String> {
        let it = flac_codec::stream::FrameIterator::new(Cursor::new(bytes)).map_err(|e| crate::api::show(&e))?;
        let mut k = 0u64;
        let mut produced = 0usize;
        for f in it {
            let (frame, _off) = f.map_err(|e| crate::api::show(&e))?;
            for sf in &frame.subframes {
                match sf {
                    flac_codec::stream::SubframeWidth::Common(s) => produced += s.decode().count(),
                    flac_codec::stream::SubframeWidth::Wide(s) => produced += s.decode().count(),
                }
            }
            k += 1;
            if produced > cap {
                return Err("OUTPUT-CAP".into());
            }
        }
        Ok(k)
    });
    if check(rep, "FrameIterator+decode", obs) {
        accepted += 1;
    }
    let obs = mon::observe(|| -> Result<u64, String> {
        use flac_codec::encode::{generate_seektable, SeekTableInterval};
        let t = generate_seektable(Cursor::new(bytes), SeekTableInterval::Frames(std::num::NonZero::new(1).unwrap())).map_err(|e| crate::api::show(&e))?;
        Ok(t.points.len() as u64)
    });
    check(rep, "generate_seektable", obs);
    // 7. header / frame parsers at every sync-looking offset (bounded count)
    let obs = mon::observe(|| -> Result<u64, String> {
        let info = flac_codec::metadata::read_info(Cursor::new(bytes)).ok();
        let mut tried = 0u64;
        for (i, w) in bytes.windows(2).enumerate() {
            if w[0] == 0xFF && (w[1] & 0xFC) == 0xF8 {
                tried += 1;
                if tried > 64 {
                    break;
                }
                let mut c = Cursor::new(&bytes[i..]);
                let _ = flac_codec::stream::FrameHeader::read_subset(&mut c);
                let mut c = Cursor::new(&bytes[i..]);
                let _ = flac_codec::stream::Frame::read_subset(&mut c);
                if let Some(si) = &info {
                    let mut c = Cursor::new(&bytes[i..]);
                    let _ = flac_codec::stream::FrameHeader::read(&mut c, si);
                    let mut c = Cursor::new(&bytes[i..]);
                    let _ = flac_codec::stream::Frame::read(&mut c, si);
                }
            }
        }
        Ok(tried)
    });
    check(rep, "Frame::read@sync", obs);
    accepted
}

/// Mutates bytes inside frame `fi` of a valid stream and repairs CRC-8/CRC-16
/// over the original extents so that the damage reaches the parser.
pub fn crc_repaired_mutation(rng: &mut Rng, bytes: &[u8], frames: &[flacref::dec::FrameInfo]) -> Option<(Vec<u8>, String)> {
    if frames.is_empty() {
        return None;
    }
    let f = &frames[rng.below(frames.len() as u64) as usize];
    let mut out = bytes.to_vec();
    let body = f.offset + 2..f.offset + f.len - 2;
    if body.is_empty() {
        return None;
    }
    let nmut = rng.usize(1, 3);
    let mut desc = format!("frame@{} ", f.offset);
    let mut header_touched = false;
    for _ in 0..nmut {
        // bias towards the header and subframe headers (first bytes)
        let pos = if rng.chance(1, 2) { body.start + rng.below((body.len().min(24)) as u64) as usize } else { body.start + rng.below(body.len() as u64) as usize };
        let how = rng.below(3);
        match how {
            0 => out[pos] ^= 1 << rng.below(8),
            1 => out[pos] = rng.next() as u8,
            _ => out[pos] = *rng.pick(&[0x00u8, 0xFF, 0x7F, 0x80]),
        }
        if pos < f.offset + f.header_len - 1 {
            header_touched = true;
        }
        desc.push_str(&format!("byte{pos} "));
    }
    if header_touched {
        // repair CRC-8 over the *original* header extent
        let hend = f.offset + f.header_len - 1;
        out[hend] = crc8(&out[f.offset..hend]);
    }
    let end = f.offset + f.len;
    let c = crc16(&out[f.offset..end - 2]);
    out[end - 2] = (c >> 8) as u8;
    out[end - 1] = c as u8;
    Some((out, desc))
}

fn all_malforms(rng: &mut Rng, nch: u8) -> Vec<Malform> {
    let s = rng.below(nch as u64) as u8;
    all_malforms_for(rng, s)
}

/// every knob, aimed at subframe `s`
fn all_malforms_for(rng: &mut Rng, s: u8) -> Vec<Malform> {
    vec![
        Malform::BsCode0,
        Malform::RateCode15,
        Malform::ChCode(11 + rng.below(5) as u8),
        Malform::BpsCode3,
        Malform::NumberLeadInvalid,
        Malform::NumberContInvalid,
        Malform::RateMismatch,
        Malform::ChannelsMismatch,
        Malform::BpsMismatch,
        Malform::Crc8Wrong,
        Malform::Crc16Wrong,
        Malform::SubPadBit(s),
        Malform::SubReservedType(s, *rng.pick(&[2u8, 3, 4, 5, 6, 7, 13, 14, 15, 16, 17, 18, 19, 20, 21, 22, 23, 24, 25, 26, 27, 28, 29, 30, 31])),
        Malform::WastedGeBps(s),
        Malform::Precision15(s),
        Malform::NegativeShift(s),
        Malform::Method(s, 2 + rng.below(2) as u8),
        Malform::PartOrderNotDividing(s),
        Malform::PartOrderTooLarge(s),
        Malform::PartOrderHuge(s),
        Malform::OrderGtBlock(s),
        Malform::HugeUnary(s, *rng.pick(&[100u32, 5000, 70000])),
        Malform::Truncate(rng.below(1000) as u16),
        Malform::ResidualMin(s),
        Malform::LpcBlowup(s),
        Malform::LpcDoubling(s),
    ]
}

/// A generated stream with one malformed frame (checksums valid).
pub fn malformed_case(rng: &mut Rng, which: Option<Malform>) -> (Vec<u8>, String) {
    malformed_case_in(rng, which, false)
}

/// `wide_side`: 32-bit stereo with a decorrelated (33-bit) side channel in every frame
pub fn malformed_case_in(rng: &mut Rng, which: Option<Malform>, wide_side: bool) -> (Vec<u8>, String) {
    let c = c03::random_case(rng, false);
    malformed_from(rng, c, which, wide_side)
}

/// malforms one frame of the given valid case
pub fn malformed_from(rng: &mut Rng, mut c: c03::GenCase, which: Option<Malform>, wide_side: bool) -> (Vec<u8>, String) {
    if wide_side {
        c.params.bps = 32;
        if c.params.channels != 2 {
            c.params.channels = 2;
            let first = c.pcm[0].clone();
            let second: Vec<i32> = first.iter().map(|v| v.wrapping_mul(3) ^ 0x55AA).collect();
            c.pcm = vec![first, second];
        }
        let a = 8 + rng.below(3) as u8;
        for p in c.plans.iter_mut() {
            p.assignment = a;
            while p.subs.len() < 2 {
                p.subs.push(SubPlan::fixed(1));
            }
            p.subs.truncate(2);
            for sp in p.subs.iter_mut() {
                sp.method = 1;
            }
        }
    }
    let nf = c.plans.len();
    let fi = rng.below(nf as u64) as usize;
    let m = which.unwrap_or_else(|| {
        let v = all_malforms(rng, c.params.channels);
        *rng.pick(&v)
    });
    // make the knob effective: predictive subframes where the knob needs one
    let needs_lpc = matches!(m, Malform::Precision15(_) | Malform::NegativeShift(_));
    let needs_pred = matches!(
        m,
        Malform::Method(..) | Malform::PartOrderNotDividing(_) | Malform::PartOrderTooLarge(_) | Malform::PartOrderHuge(_) | Malform::HugeUnary(..) | Malform::ResidualMin(_) | Malform::OrderGtBlock(_)
    );
    for s in c.plans[fi].subs.iter_mut() {
        if needs_lpc {
            if !matches!(s.kind, flacref::dec::SubKind::Lpc(_)) {
                s.kind = flacref::dec::SubKind::Lpc(rng.usize(1, 8) as u8);
                s.precision = rng.usize(2, 15) as u8;
                s.shift = rng.usize(0, 10) as u8;
                s.coefs = guess_lpc(8, s.precision, s.shift, rng, 3);
            }
        } else if needs_pred && matches!(s.kind, flacref::dec::SubKind::Constant | flacref::dec::SubKind::Verbatim) {
            s.kind = flacref::dec::SubKind::Fixed(rng.usize(1, 4) as u8);
        }
    }
    if matches!(m, Malform::OrderGtBlock(_)) {
        // tiny block so that the order exceeds it
        for s in c.plans[fi].subs.iter_mut() {
            s.kind = flacref::dec::SubKind::Lpc(32);
            s.precision = 5;
            s.coefs = vec![1; 32];
        }
    }
    c.plans[fi].malform = Some(m);
    let g = build_stream(&c.params, &c.pcm, &c.plans);
    (g.bytes, format!("{m:?} in frame {fi}/{nf} of {}", c.label))
}

/// Valid frames behind a STREAMINFO / SEEKTABLE that lies about them.
pub fn lying_metadata_case(rng: &mut Rng) -> Option<(Vec<u8>, String)> {
    let mut c = c03::random_case(rng, false);
    c.params.seek = match rng.below(3) {
        0 => SeekMode::EveryFrame,
        1 => SeekMode::Every(2),
        _ => c.params.seek.clone(),
    };
    c.params.total_known = true;
    let g = build_stream(&c.params, &c.pcm, &c.plans);
    let mut b = g.bytes.clone();
    let (mut si, blocks, _, _) = flacref::dec::walk_metadata(&b, false).ok()?;
    let total = si.total;
    let bs = c.plans[0].block_size as u64;
    let mut what = String::new();
    match rng.below(8) {
        0 => si.total = total.saturating_sub(1).max(1),
        1 => si.total = total.saturating_sub(bs).max(1),
        2 => si.total = rng.range(1, total.max(2) as i64 - 1) as u64,
        3 => si.total = total + rng.range(1, 70000) as u64,
        4 => si.total = (1u64 << 36) - 1,
        5 => {
            si.max_block = (si.max_block / 2).max(1);
            si.min_block = si.min_block.min(si.max_block);
        }
        6 => si.min_block = si.max_block.saturating_add(1),
        _ => {
            si.min_frame = 0xFFFFFF;
            si.max_frame = 1;
        }
    }
    what.push_str(&format!("streaminfo total {}->{} blocks {}..{}; ", total, si.total, si.min_block, si.max_block));
    b[8..42].copy_from_slice(&si.to_bytes());
    // seek table with wild values (sample numbers kept ascending so that it parses)
    if let Some(st) = blocks.iter().find(|m| m.btype == 3) {
        let n = st.len / 18;
        if n > 0 && rng.chance(2, 3) {
            let k = rng.below(n as u64) as usize;
            let at = st.offset + 4 + 18 * k;
            match rng.below(5) {
                0 => b[at + 8..at + 16].copy_from_slice(&(u64::MAX - rng.below(64)).to_be_bytes()),
                1 => {
                    let v = b.len() as u64 + rng.below(1000);
                    b[at + 8..at + 16].copy_from_slice(&v.to_be_bytes())
                }
                2 => {
                    if k + 1 == n {
                        b[at..at + 8].copy_from_slice(&(total + rng.below(100000)).to_be_bytes());
                    }
                }
                3 => b[at + 8..at + 16].copy_from_slice(&rng.below(g.bytes.len() as u64).to_be_bytes()),
                _ => b[at + 16..at + 18].copy_from_slice(&(rng.next() as u16).to_be_bytes()),
            }
            what.push_str(&format!("seek point {k}/{n} patched"));
        }
    }
    Some((b, format!("{} [{what}]", c.label)))
}

fn run_one(rep: &mut Report, bytes: &[u8], origin: &str, class: &str) {
    rep.case_begin_sized(&format!("{class}: {origin} len={} fnv={:016x}", bytes.len(), fnv(bytes)), bytes.len());
    rep.eval();
    rep.count("input_class", class);
    let b = bytes.to_vec();
    let o = origin.to_string();
    let c = class.to_string();
    let replay = move || J::obj().set("class", c.as_str()).set("origin", o.as_str()).set("bytes", if b.len() <= 40000 { J::hex(&b) } else { J::Null }).set("len", b.len());
    let accepted = drive_all(rep, bytes, &replay, origin);
    // a CRC-valid malformed input that got rejected is the interesting (non-trivial) kind
    if class != "random" {
        rep.nontrivial(fnv(bytes));
    }
    if accepted > 0 {
        rep.count("accepted_by_some_reader", class);
    }
    rep.sample(|| J::obj().set("class", class).set("origin", origin).set("len", bytes.len()).set("head", J::hex(&bytes[..bytes.len().min(48)])));
}

pub fn run(ctx: &Ctx, rep: &mut Report) {
    if let Some(path) = &ctx.replay {
        let text = std::fs::read_to_string(path).expect("replay file");
        let j = crate::json::parse(&text).expect("json");
        let r = j.get("replay").unwrap_or(&j);
        if let Some(bytes) = r.get("bytes").and_then(|x| x.unhex()) {
            run_one(rep, &bytes, r.get("origin").and_then(|x| x.as_str()).unwrap_or("replay"), "replay");
            for v in &rep.violations {
                eprintln!("VIOLATION-DETAIL {} {}: {}", v.kind, v.sig, v.detail);
            }
            if rep.violations.is_empty() {
                eprintln!("replay: no violation reproduced");
            }
        } else {
            eprintln!("replay file carries no bytes (case: {:?})", r.get("case"));
        }
        return;
    }
    if ctx.extra.iter().any(|a| a == "--tiny") {
        // Miri tier: a few small CRC-valid malformed files per process through every entry point
        let mut rng = ctx.rng(0x7104);
        // (16..24-sample blocks: the interpreter's cost is dominated by the samples decoded, and the
        // generator itself runs inside it too)
        let mut done = 0u64;
        let mut tries = 0;
        while done < 4 && tries < 40 {
            tries += 1;
            let c = c03::tiny_case(&mut rng);
            // knobs that inflate the file (huge unary runs, reserved coding methods) are left to the
            // native tiers: building them inside the interpreter alone takes minutes
            let knobs: Vec<Malform> = all_malforms(&mut rng, c.params.channels).into_iter().filter(|m| !matches!(m, Malform::HugeUnary(..) | Malform::Method(..))).collect();
            let m = *rng.pick(&knobs);
            let (b, what) = malformed_from(&mut rng, c, Some(m), (ctx.shard + done) % 4 == 3);
            // a few knobs (huge unary runs, method switches) inflate the file: too slow to interpret
            if b.len() <= 400 {
                let t = std::time::Instant::now();
                run_one(rep, &b, &what, "malform-knob");
                eprintln!("tiny case {what} ({} bytes): {:.1}s", b.len(), t.elapsed().as_secs_f64());
                done += 1;
            }
        }
        return;
    }
    let mut rng = ctx.rng(0xC04);
    // (a) every malform knob x a few surroundings (each-choice)
    let reps = if ctx.thorough { 16 } else { 6 };
    let knobs = all_malforms(&mut rng, 1).len();
    let mut idx = 0u64;
    for k in 0..knobs {
        for _ in 0..reps {
            idx += 1;
            if !ctx.mine(idx) {
                continue;
            }
            let mut r2 = Rng::new(ctx.seed ^ idx.wrapping_mul(0x9E3779B97F4A7C15));
            let m = all_malforms(&mut r2, 1)[k];
            // re-derive with the case's own channel count inside malformed_case when the knob is per-subframe
            let (bytes, origin) = malformed_case(&mut r2, Some(m));
            run_one(rep, &bytes, &origin, "malform-knob");
            // the same knob inside a 32-bit stereo stream with a 33-bit side channel, aimed at each subframe
            for sidx in 0..2u8 {
                let m = all_malforms_for(&mut r2, sidx)[k];
                let (bytes, origin) = malformed_case_in(&mut r2, Some(m), true);
                run_one(rep, &bytes, &format!("{origin} [32-bit side channel]"), "malform-knob-wide-side");
            }
        }
    }
    // (b) fixtures from the repository: truncated and spliced
    if ctx.shard == 0 {
        if let Ok(rd) = std::fs::read_dir("/repo/tests/data") {
            let mut files: Vec<_> = rd.filter_map(|e| e.ok()).map(|e| e.path()).filter(|p| p.extension().map(|x| x == "flac").unwrap_or(false)).collect();
            files.sort();
            for p in files {
                if let Ok(data) = std::fs::read(&p) {
                    if data.len() > 20000 {
                        continue;
                    }
                    run_one(rep, &data, &format!("fixture {}", p.display()), "fixture");
                    for cut in [data.len() / 2, data.len() - 1, 42, 4] {
                        run_one(rep, &data[..cut.min(data.len())], &format!("fixture {} cut {cut}", p.display()), "fixture-truncated");
                    }
                }
            }
        }
    }
    // (c) random loop over the other classes
    while ctx.time_left() {
        match rng.below(10) {
            0..=3 => {
                // CRC-repaired mutation of a valid stream
                let c = c03::random_case(&mut rng, false);
                let g = build_stream(&c.params, &c.pcm, &c.plans);
                if let Ok(d) = decode_file(&g.bytes, &Rules::LENIENT) {
                    for _ in 0..4 {
                        if let Some((b, desc)) = crc_repaired_mutation(&mut rng, &g.bytes, &d.frames) {
                            run_one(rep, &b, &format!("{} {desc}", c.label), "crc-repaired-mutation");
                        }
                    }
                }
            }
            4 => {
                let wide = rng.chance(1, 3);
                let (bytes, origin) = malformed_case_in(&mut rng, None, wide);
                run_one(rep, &bytes, &origin, if wide { "malform-knob-wide-side" } else { "malform-knob" });
            }
            5 => {
                if let Some((bytes, origin)) = lying_metadata_case(&mut rng) {
                    run_one(rep, &bytes, &origin, "lying-metadata");
                }
            }
            6 if rng.chance(1, 2) => {
                // metadata blocks whose inner length / count fields are pushed to extremes
                let (b, what) = super::c11::extreme_section(&mut rng);
                run_one(rep, &b, &what, "metadata-extreme");
            }
            6 => {
                // raw random bytes, sometimes behind a valid marker + STREAMINFO
                let n = rng.usize(0, 600);
                let mut b = rng.bytes(n);
                if rng.chance(1, 2) {
                    let c = c03::random_case(&mut rng, false);
                    let g = build_stream(&c.params, &c.pcm, &c.plans);
                    let mut v = g.bytes[..g.frames_start].to_vec();
                    v.append(&mut b);
                    b = v;
                }
                run_one(rep, &b, "random bytes", "random");
            }
            7 => {
                // sync-rich random bytes behind valid metadata
                let c = c03::random_case(&mut rng, false);
                let g = build_stream(&c.params, &c.pcm, &c.plans);
                let mut v = g.bytes[..g.frames_start].to_vec();
                for _ in 0..rng.usize(1, 30) {
                    v.extend_from_slice(&[0xFF, 0xF8 | rng.below(4) as u8]);
                    let n = rng.usize(0, 40);
                    v.extend_from_slice(&rng.bytes(n));
                }
                run_one(rep, &v, "sync-rich random", "sync-rich");
            }
            8 => {
                // crate-encoded file with mutated metadata region / truncation
                let cfg = EncCfg::random(&mut rng);
                let frames = rng.usize(1, 3000);
                let mut r2 = Rng::new(rng.next());
                let pcm = flacref::pcm::generate(*rng.pick(&flacref::pcm::ALL_SIGNALS), cfg.channels as usize, cfg.bps, frames, &mut r2);
                if let Ok(mut b) = encode(&cfg, Front::Sample, &pcm) {
                    if rng.chance(1, 2) {
                        let cut = rng.usize(0, b.len());
                        b.truncate(cut);
                    } else {
                        for _ in 0..rng.usize(1, 4) {
                            let p = rng.usize(0, b.len().min(8300) - 1);
                            b[p] = rng.next() as u8;
                        }
                    }
                    run_one(rep, &b, "crate-encoded mutated", "encoded-mutated");
                }
            }
            _ => {
                // splice: frames of one stream behind the header of another
                let a = c03::random_case(&mut rng, false);
                let b = c03::random_case(&mut rng, false);
                let ga = build_stream(&a.params, &a.pcm, &a.plans);
                let gb = build_stream(&b.params, &b.pcm, &b.plans);
                let mut v = ga.bytes[..ga.frames_start].to_vec();
                v.extend_from_slice(&gb.bytes[gb.frames_start..]);
                run_one(rep, &v, "spliced streams", "splice");
            }
        }
    }

}
