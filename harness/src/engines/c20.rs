//! C20 — cue sheet text import reproduces the layout the text describes
//! (generator of well-formed cue text + independent MM:SS:FF model).

use crate::json::J;
use crate::mon;
use crate::report::{hash_str, Report};
use crate::Ctx;
use flac_codec::metadata::{self, Cuesheet};
use flacref::cue::{self, CueModel, TextStyle};
use flacref::rng::Rng;

type Layout = Vec<(Option<u8>, Vec<(u8, u64)>)>;

fn layout_of(c: &Cuesheet) -> Layout {
    c.tracks().map(|t| (t.number, t.index_points.iter().map(|i| (i.number, t.offset + i.offset)).collect())).collect()
}

pub fn judge(rep: &mut Report, text: &str, model: &CueModel, style: &TextStyle) {
    rep.eval();
    let replay = || J::obj().set("text", text).set("total_samples", model.total_samples).set("style", format!("{style:?}"));
    let parsed = match mon::guard(|| Cuesheet::parse(model.total_samples, text)) {
        Err(p) => {
            rep.violation("panic", p.signature(), format!("Cuesheet::parse: {} at {}", p.msg, p.location), replay());
            return;
        }
        Ok(Err(e)) => {
            rep.violation("import-refused", format!("well-formed-cue-refused:{e:?}"), format!("Cuesheet::parse refused a well-formed cue sheet: {e:?} ({} tracks)", model.tracks.len()), replay());
            return;
        }
        Ok(Ok(c)) => c,
    };
    let r = mon::guard(|| -> Result<(), (String, String)> {
        let bad = |sig: &str, msg: String| Err((sig.to_string(), msg));
        if !parsed.is_cdda() {
            return bad("not-cdda", "stream length is a whole number of CD sectors but the block is not CD-DA".into());
        }
        let tracks: Vec<_> = parsed.tracks().collect();
        if tracks.len() != model.tracks.len() + 1 {
            return bad("track-count", format!("{} tracks (incl. lead-out), text has {}", tracks.len(), model.tracks.len()));
        }
        if parsed.track_count() != model.tracks.len() + 1 {
            return bad("track-count", format!("track_count() = {}", parsed.track_count()));
        }
        for (t, m) in tracks.iter().zip(&model.tracks) {
            if t.number != Some(m.number) {
                return bad("track-number", format!("track number {:?}, text says {}", t.number, m.number));
            }
            if t.index_points.len() != m.indices.len() {
                return bad("index-count", format!("track {}: {} indices, text has {}", m.number, t.index_points.len(), m.indices.len()));
            }
            for (i, mi) in t.index_points.iter().zip(&m.indices) {
                if i.number != mi.number {
                    return bad("index-number", format!("track {}: index number {}, text says {}", m.number, i.number, mi.number));
                }
                let abs = t.offset + i.offset;
                if abs != mi.position {
                    return bad("index-position", format!("track {} index {:02}: absolute position {abs}, text says {} ({})", m.number, mi.number, mi.position, cue::msf(mi.position)));
                }
            }
            if t.pre_emphasis != m.pre_emphasis {
                return bad("pre-emphasis", format!("track {}: pre-emphasis {}, text says {}", m.number, t.pre_emphasis, m.pre_emphasis));
            }
            if t.non_audio {
                return bad("non-audio", format!("track {} marked non-audio", m.number));
            }
            let got_isrc = t.isrc.as_ref().to_string();
            let want = m.isrc.clone().unwrap_or_default();
            if got_isrc != want {
                return bad("isrc", format!("track {}: ISRC '{got_isrc}', text says '{want}'", m.number));
            }
        }
        let lead = tracks.last().unwrap();
        if lead.number.is_some() || lead.offset != model.total_samples || !lead.index_points.is_empty() {
            return bad("lead-out", format!("lead-out number {:?} offset {} (stream length {})", lead.number, lead.offset, model.total_samples));
        }
        let cat = parsed.catalog_number().to_string();
        if cat != model.catalog.clone().unwrap_or_default() {
            return bad("catalog", format!("catalog '{cat}', text says {:?}", model.catalog));
        }
        let ranges: Vec<(u64, u64)> = parsed.track_sample_ranges().map(|r| (r.start, r.end)).collect();
        if ranges != model.track_ranges() {
            return bad("track-ranges", format!("track ranges differ: got {:?}.. want {:?}..", ranges.first(), model.track_ranges().first()));
        }
        // export -> import reproduces the track/index layout
        let exported = parsed.display("audio.flac").to_string();
        match Cuesheet::parse(model.total_samples, &exported) {
            Ok(again) => {
                if layout_of(&again) != layout_of(&parsed) {
                    return bad("export-import-layout", "display() -> parse() changes the track/index layout".into());
                }
            }
            Err(e) => return bad("export-import-refused", format!("text produced by display() is refused on import: {e:?}")),
        }
        // survives a metadata write/read round trip
        let bl = {
            let mut bl = metadata::BlockList::new(metadata::Streaminfo {
                minimum_block_size: 4096,
                maximum_block_size: 4096,
                minimum_frame_size: None,
                maximum_frame_size: None,
                sample_rate: 44100,
                channels: std::num::NonZero::new(2).unwrap(),
                bits_per_sample: bitstream_io::SignedBitCount::new::<16>(),
                // the STREAMINFO field has 36 bits; the cue sheet block itself does not depend on it
                total_samples: std::num::NonZero::new(model.total_samples).filter(|t| t.get() < (1 << 36)),
                md5: None,
            });
            bl.insert(parsed.clone());
            bl
        };
        let mut buf = vec![];
        match metadata::write_blocks(&mut buf, bl.blocks()) {
            Ok(()) => match metadata::BlockList::read(std::io::Cursor::new(&buf)) {
                Ok(back) => match back.get::<Cuesheet>() {
                    Some(c2) if *c2 == parsed => {}
                    _ => return bad("block-roundtrip", "cue sheet block differs after write_blocks/read".into()),
                },
                Err(e) => return bad("block-roundtrip", format!("written block is refused by the reader: {e:?}")),
            },
            Err(e) => return bad("block-write", format!("imported cue sheet cannot be serialised: {e:?}")),
        }
        Ok(())
    });
    match r {
        Err(p) => rep.violation("panic", p.signature(), format!("{} at {}", p.msg, p.location), replay()),
        Ok(Err((sig, msg))) => rep.violation("layout-mismatch", format!("cue:{sig}"), msg, replay()),
        Ok(Ok(())) => {
            rep.nontrivial(hash_str(text));
            rep.count("tracks", model.tracks.len().min(100));
            rep.count_n("indices_checked", "n", model.tracks.iter().map(|t| t.indices.len() as u64).sum());
            if model.tracks.iter().any(|t| t.indices[0].number == 0) {
                rep.count("feature", "pre-gap index");
            }
            if model.tracks.iter().any(|t| t.indices.len() >= 99) {
                rep.count("feature", ">=99 indices in a track");
            }
            if model.total_samples / 588 / 75 / 60 > 99 {
                rep.count("feature", "minutes above 99");
            }
            if model.catalog.is_some() {
                rep.count("feature", "catalog");
            }
            if model.tracks.iter().any(|t| t.isrc.is_some()) {
                rep.count("feature", "isrc");
            }
            if model.tracks.iter().any(|t| t.pre_emphasis) {
                rep.count("feature", "flags pre");
            }
        }
    }
    rep.sample(|| J::obj().set("tracks", model.tracks.len()).set("total_samples", model.total_samples).set("style", format!("{style:?}")).set("text_head", text.chars().take(400).collect::<String>()));
}

pub fn run(ctx: &Ctx, rep: &mut Report) {
    if let Some(path) = &ctx.replay {
        let text = std::fs::read_to_string(path).expect("replay");
        let j = crate::json::parse(&text).expect("json");
        let r = j.get("replay").unwrap_or(&j);
        if let (Some(t), Some(total)) = (r.get("text").and_then(|x| x.as_str()), r.get("total_samples").and_then(|x| x.as_u64())) {
            eprintln!("parse result: {:?}", Cuesheet::parse(total, t).map(|c| layout_of(&c)));
        }
        return;
    }
    let mut rng = ctx.rng(0xC20);
    let mut i = 0u64;
    while i < 300 || ctx.time_left() {
        i += 1;
        let style = TextStyle {
            crlf: rng.chance(1, 3),
            indent: rng.chance(2, 3),
            trailing_blanks: rng.chance(1, 3),
            final_newline: rng.chance(3, 4),
            noise_lines: rng.chance(1, 2),
            quote_catalog: rng.chance(1, 2),
            quote_isrc: rng.chance(1, 2),
            dashed_isrc: rng.chance(1, 3),
        };
        rep.count("style", format!("crlf={} trailing={} dashed_isrc={}", style.crlf, style.trailing_blanks, style.dashed_isrc));
        let max_tracks = *rng.pick(&[1usize, 2, 5, 20, 99]);
        let long = rng.chance(1, 3);
        let (text, model) = cue::generate(&mut rng, style, max_tracks, long);
        rep.case_begin(&format!("cue {} tracks style {style:?}", model.tracks.len()));
        judge(rep, &text, &model, &style);
    }
}
