//! C17 — parsed frame structures re-serialise identically and agree with the
//! streaming decoder (accept/reject parity, sample agreement).
//! C19 — bounded expansion (per-frame size bounds from the reference frame table).

use super::c03;
use super::c04;
use super::common::*;
use crate::api::*;
use crate::json::J;
use crate::mon;
use crate::report::{fnv, Report};
use crate::Ctx;
use flac_codec::metadata::Streaminfo;
use flac_codec::stream::{Frame, SubframeWidth};
use flacref::dec::{decode_file, decode_frame, FrameInfo, Rules, StreamInfo};
use flacref::rng::Rng;
use flacref::sgen::*;
use std::io::Cursor;
use std::num::NonZero;

fn crate_streaminfo(si: &StreamInfo, total: u64) -> Streaminfo {
    Streaminfo {
        minimum_block_size: si.min_block,
        maximum_block_size: si.max_block,
        minimum_frame_size: NonZero::new(si.min_frame),
        maximum_frame_size: NonZero::new(si.max_frame),
        sample_rate: si.rate,
        channels: NonZero::new(si.channels).unwrap(),
        bits_per_sample: bitstream_io::SignedBitCount::<32>::try_from(si.bps as u32).unwrap(),
        total_samples: NonZero::new(total),
        md5: None,
    }
}

fn one_frame_file(si: &StreamInfo, total: u64, frame: &[u8]) -> Vec<u8> {
    let mut s = si.clone();
    s.total = total;
    s.md5 = [0; 16];
    let mut v = b"fLaC".to_vec();
    v.push(0x80);
    v.extend_from_slice(&[0, 0, 34]);
    v.extend_from_slice(&s.to_bytes());
    v.extend_from_slice(frame);
    v
}

/// undo channel decorrelation on the structural parser's subframes
fn structural_samples(f: &Frame) -> Result<Vec<Vec<i64>>, String> {
    let bs = u16::from(f.header.block_size) as usize;
    let mut subs: Vec<Vec<i64>> = vec![];
    for sf in &f.subframes {
        let v: Vec<i64> = match sf {
            SubframeWidth::Common(s) => s.decode().map(|x| x as i64).collect(),
            SubframeWidth::Wide(s) => s.decode().collect(),
        };
        if v.len() != bs {
            return Err(format!("subframe expands to {} samples, block size is {bs}", v.len()));
        }
        subs.push(v);
    }
    use flac_codec::stream::ChannelAssignment as CA;
    match f.header.channel_assignment {
        CA::Independent(_) => {}
        // (wrapping only so that garbage cannot overflow the harness itself; such
        // frames are excluded from the sample comparison by the bit-depth test)
        CA::LeftSide => {
            for i in 0..bs {
                subs[1][i] = subs[0][i].wrapping_sub(subs[1][i]);
            }
        }
        CA::SideRight => {
            for i in 0..bs {
                subs[0][i] = subs[0][i].wrapping_add(subs[1][i]);
            }
        }
        CA::MidSide => {
            for i in 0..bs {
                let side = subs[1][i];
                let mid = subs[0][i].wrapping_shl(1) | (side & 1);
                subs[0][i] = mid.wrapping_add(side) >> 1;
                subs[1][i] = mid.wrapping_sub(side) >> 1;
            }
        }
    }
    Ok(subs)
}

/// Judges one frame (given as bytes) against both parsers.
pub fn judge_frame(rep: &mut Report, si: &StreamInfo, fb: &[u8], refinfo: Option<&FrameInfo>, target: Option<&[Vec<i32>]>, origin: &str) {
    rep.eval();
    rep.count("frame_origin", origin.split(':').next().unwrap_or(""));
    // the one-frame file must declare exactly the frame's own block size as its total so that
    // the stream-level rules (short block must be last, total not exceeded) cannot create a
    // spurious disagreement; when the reference decoder cannot parse the frame the block size
    // is taken from the header as the crate's (shared) header parser reads it
    let nominal_bs = refinfo
        .map(|f| f.block_size as u64)
        .or_else(|| {
            let probe = crate_streaminfo(si, 1);
            mon::guard(|| flac_codec::stream::FrameHeader::read(&mut Cursor::new(fb), &probe).ok().map(|h| u16::from(h.block_size) as u64)).ok().flatten()
        })
        .unwrap_or(si.max_block as u64)
        .max(1);
    let csi = crate_streaminfo(si, nominal_bs);
    let replay = || J::obj().set("origin", origin).set("streaminfo", format!("{si:?}")).set("frame", J::hex(&fb[..fb.len().min(40000)]));
    // structural parser
    let structural = mon::guard(|| Frame::read(&mut Cursor::new(fb), &csi).map_err(|e| crate::api::show(&e)));
    // streaming decoder on the same frame wrapped as a one-frame file
    let file = one_frame_file(si, nominal_bs, fb);
    let streaming = mon::guard(|| decode_all(Cursor::new(&file[..]), Rd::SampleRead, 1 << 20));
    let (structural, streaming) = match (structural, streaming) {
        (Err(p), _) => {
            rep.violation("panic", format!("Frame::read:{}", p.signature()), format!("{origin}: {} at {}", p.msg, p.location), replay());
            return;
        }
        (_, Err(p)) => {
            rep.violation("panic", format!("decoder:{}", p.signature()), format!("{origin}: {} at {}", p.msg, p.location), replay());
            return;
        }
        (Ok(a), Ok(b)) => (a, b),
    };
    let stream_ok = streaming.error.is_none() && streaming.meta.is_some();
    match (&structural, stream_ok) {
        (Ok(_), true) => rep.count("verdicts", "both-accept"),
        (Err(_), false) => rep.count("verdicts", "both-reject"),
        (Ok(_), false) => {
            rep.violation(
                "parity",
                format!("structural-accepts-decoder-rejects:{}", err_name(streaming.error.as_deref().unwrap_or(""))),
                format!("{origin}: Frame::read accepts the frame, the streaming decoder rejects it with {:?}", streaming.error),
                replay(),
            );
            return;
        }
        (Err(e), true) => {
            rep.violation("parity", format!("decoder-accepts-structural-rejects:{}", err_name(e)), format!("{origin}: the streaming decoder accepts the frame, Frame::read rejects it with {e}"), replay());
            return;
        }
    }
    let Ok(frame) = structural else { return };
    // each subframe expands to exactly block-size samples; samples agree with the streaming decoder
    let samples = match mon::guard(|| structural_samples(&frame)) {
        Err(p) => {
            rep.violation("panic", format!("Subframe::decode:{}", p.signature()), format!("{origin}: {} at {}", p.msg, p.location), replay());
            return;
        }
        Ok(Err(e)) => {
            rep.violation("structure", "subframe-sample-count", format!("{origin}: {e}"), replay());
            return;
        }
        Ok(Ok(s)) => s,
    };
    // the format only defines sample values inside the bit depth: when a (malformed, checksum-valid)
    // frame decodes to subframe values outside their depth, exact arithmetic and the decoder's
    // 32-bit arithmetic legitimately part ways, so there is nothing to compare
    {
        use flac_codec::stream::ChannelAssignment as CA;
        let bps = u32::from(frame.header.bits_per_sample);
        let side_index = match frame.header.channel_assignment {
            CA::LeftSide | CA::MidSide => Some(1),
            CA::SideRight => Some(0),
            CA::Independent(_) => None,
        };
        let raw: Vec<Vec<i64>> = frame
            .subframes
            .iter()
            .map(|sf| match sf {
                SubframeWidth::Common(s) => s.decode().map(|x| x as i64).collect(),
                SubframeWidth::Wide(s) => s.decode().collect(),
            })
            .collect();
        let out_of_depth = raw.iter().enumerate().any(|(i, c)| {
            let b = bps + (side_index == Some(i)) as u32;
            let lo = -(1i64 << (b - 1));
            let hi = (1i64 << (b - 1)) - 1;
            c.iter().any(|v| *v < lo || *v > hi)
        });
        if out_of_depth {
            rep.count("verdicts", "both-accept:values-outside-bit-depth (samples not compared)");
            return;
        }
    }
    {
        // same for the reconstructed channels: they must fit the frame's bit depth
        let b = u32::from(frame.header.bits_per_sample);
        let lo = -(1i64 << (b - 1));
        let hi = (1i64 << (b - 1)) - 1;
        if samples.iter().any(|c| c.iter().any(|v| *v < lo || *v > hi)) {
            rep.count("verdicts", "both-accept:values-outside-bit-depth (samples not compared)");
            return;
        }
    }
    let inter: Vec<i32> = {
        let bs = samples[0].len();
        let mut v = Vec::with_capacity(bs * samples.len());
        for i in 0..bs {
            for c in &samples {
                v.push(c[i] as i32);
            }
        }
        v
    };
    if inter != streaming.samples {
        rep.violation("structure", "structural-samples-differ-from-decoder", format!("{origin}: {}", first_diff(&inter, &streaming.samples)), replay());
        return;
    }
    if let Some(t) = target {
        let want = flacref::dec::interleave(t);
        if inter != want {
            rep.violation("structure", "structural-samples-differ-from-target", format!("{origin}: {}", first_diff(&inter, &want)), replay());
            return;
        }
    }
    // byte-identical re-serialisation when the original used minimal numbers and zero padding
    let canonical = refinfo.map(|f| f.number_minimal && f.padding_zero && !f.reserved_bit).unwrap_or(false);
    let rewritten = mon::guard(|| {
        let mut out = vec![];
        frame.write(&csi, &mut out).map(|()| out).map_err(|e| crate::api::show(&e))
    });
    match rewritten {
        Err(p) => rep.violation("panic", format!("Frame::write:{}", p.signature()), format!("{origin}: {} at {}", p.msg, p.location), replay()),
        Ok(Err(e)) => {
            if canonical {
                rep.violation("reserialise", format!("parsed-frame-unwritable:{}", err_name(&e)), format!("{origin}: Frame::write fails on a parsed frame: {e}"), replay());
            }
        }
        Ok(Ok(out)) => {
            if canonical {
                if out != fb {
                    let at = out.iter().zip(fb).position(|(a, b)| a != b);
                    rep.violation("reserialise", "reserialised-bytes-differ", format!("{origin}: Frame::write gives {} bytes, original {} bytes, first difference at {at:?}", out.len(), fb.len()), replay());
                } else {
                    rep.count("reserialised", "byte-identical");
                    rep.nontrivial(fnv(fb));
                }
            } else {
                rep.count("reserialised", "non-canonical-original (bytes not compared)");
                rep.nontrivial(fnv(fb));
            }
        }
    }
}

pub fn run_c17(ctx: &Ctx, rep: &mut Report) {
    if let Some(path) = &ctx.replay {
        let text = std::fs::read_to_string(path).expect("replay");
        eprintln!("C17 replay: the stored frame and STREAMINFO are in the file:\n{}", &text[..text.len().min(1500)]);
        return;
    }
    let mut rng = ctx.rng(0xC17);
    let mut i = 0u64;
    while i < 30 || ctx.time_left() {
        i += 1;
        rep.case_begin(&format!("c17 case {i}"));
        match i % 4 {
            0 => {
                // the crate's own output
                let cfg = EncCfg::random(&mut rng);
                let frames = rng.usize(1, 3 * cfg.block_size as usize + 20).min(9000);
                let mut r2 = Rng::new(rng.next());
                let pcm = flacref::pcm::generate(*rng.pick(&flacref::pcm::ALL_SIGNALS), cfg.channels as usize, cfg.bps, frames, &mut r2);
                let Ok(bytes) = encode(&cfg, Front::Sample, &pcm) else { continue };
                let Ok(d) = decode_file(&bytes, &Rules::LENIENT) else { continue };
                for f in &d.frames {
                    let fb = &bytes[f.offset..f.offset + f.len];
                    let a = f.first_sample as usize;
                    let t: Vec<Vec<i32>> = d.pcm.iter().map(|c| c[a..a + f.block_size as usize].to_vec()).collect();
                    judge_frame(rep, &d.info, fb, Some(f), Some(&t), "crate-encoded");
                }
            }
            1 => {
                // generator-made valid frames (all grammar alternatives), incl. non-minimal numbers / padding ones
                let mut c = c03::random_case(&mut rng, false);
                c.params.start_number = 0;
                for p in c.plans.iter_mut() {
                    if rng.chance(1, 5) {
                        p.number_extra_bytes = rng.usize(1, 3) as u8;
                    }
                    if rng.chance(1, 6) {
                        p.pad_ones = true;
                    }
                }
                let g = build_stream(&c.params, &c.pcm, &c.plans);
                let mut pos = 0usize;
                for (gf, plan) in g.frames.iter().zip(&c.plans) {
                    let fb = &g.bytes[gf.offset..gf.offset + gf.len];
                    let bs = plan.block_size as usize;
                    let t: Vec<Vec<i32>> = c.pcm.iter().map(|ch| ch[pos..pos + bs].to_vec()).collect();
                    pos += bs;
                    let fi = decode_frame(&g.bytes, gf.offset, Some(&g.info), &Rules::LENIENT).ok().map(|x| x.0);
                    if fi.is_none() {
                        rep.inconclusive.push("generator/validator disagree on a frame (c17)".into());
                        continue;
                    }
                    judge_frame(rep, &g.info, fb, fi.as_ref(), Some(&t), "generated-valid");
                }
            }
            2 => {
                // malformed but checksum-valid frames
                let mut c = c03::random_case(&mut rng, false);
                let fi = rng.below(c.plans.len() as u64) as usize;
                let (bytes, origin) = {
                    // reuse the malform machinery of c04 on this case
                    let _ = &mut c;
                    let wide = rng.chance(1, 3);
                    c04::malformed_case_in(&mut rng, None, wide)
                };
                let _ = fi;
                if let Ok((si, _, _, start)) = flacref::dec::walk_metadata(&bytes, false) {
                    // frames are found with the lenient reference decoder where possible, else by sync scan
                    let mut off = start;
                    let mut n = 0;
                    while off + 2 < bytes.len() && n < 12 {
                        n += 1;
                        match decode_frame(&bytes, off, Some(&si), &Rules::LENIENT) {
                            Ok((f, _)) => {
                                judge_frame(rep, &si, &bytes[off..off + f.len], Some(&f), None, "malform-knob:valid-neighbour");
                                off += f.len;
                            }
                            Err(_) => {
                                // the malformed frame: extent unknown -> hand the rest of the file to both parsers
                                judge_frame(rep, &si, &bytes[off..], None, None, &format!("malform-knob:{}", origin.split(' ').next().unwrap_or("")));
                                break;
                            }
                        }
                    }
                }
            }
            _ => {
                // CRC-repaired mutations of valid frames
                let c = c03::random_case(&mut rng, false);
                let g = build_stream(&c.params, &c.pcm, &c.plans);
                let Ok(d) = decode_file(&g.bytes, &Rules::LENIENT) else { continue };
                for _ in 0..4 {
                    if let Some((b, _desc)) = c04::crc_repaired_mutation(&mut rng, &g.bytes, &d.frames) {
                        // judge every frame extent of the original layout
                        for f in &d.frames {
                            let fb = &b[f.offset..f.offset + f.len];
                            if fb != &g.bytes[f.offset..f.offset + f.len] {
                                let fi = decode_frame(&b, f.offset, Some(&d.info), &Rules::LENIENT).ok().map(|x| x.0).filter(|x| x.len == f.len);
                                judge_frame(rep, &d.info, fb, fi.as_ref(), None, "crc-repaired-mutation");
                            }
                        }
                    }
                }
            }
        }
    }
}

// ------------------------------------------------------------------ C19 ----

/// allowance fixed in DESIGN.md: 24 + 5 * channels bytes on top of verbatim
pub fn frame_bound(block: u64, channels: u64, bps: u64, stereo_decorrelated: bool) -> u64 {
    let bits = block * channels * bps + if stereo_decorrelated { block } else { 0 };
    24 + 5 * channels + bits.div_ceil(8)
}

pub fn run_c19(ctx: &Ctx, rep: &mut Report) {
    if let Some(path) = &ctx.replay {
        let text = std::fs::read_to_string(path).expect("replay");
        let j = crate::json::parse(&text).expect("json");
        let r = j.get("replay").unwrap_or(&j);
        if let Some(c) = super::c01::case_from_json(r) {
            let pcm = c.recipe.make(c.cfg.channels as usize, c.cfg.bps);
            if let Ok(b) = encode(&c.cfg, c.front, &pcm) {
                if let Ok(d) = decode_file(&b, &Rules::LENIENT) {
                    for (i, f) in d.frames.iter().enumerate() {
                        eprintln!("frame {i}: {} bytes, block {}, bound {}", f.len, f.block_size, frame_bound(f.block_size as u64, f.channels as u64, f.bps as u64, f.ch_code >= 8));
                    }
                }
            }
        }
        return;
    }
    let mut rng = ctx.rng(0xC19);
    let adversarial = [
        flacref::pcm::Signal::NoiseFull,
        flacref::pcm::Signal::AlternatingExtremes,
        flacref::pcm::Signal::RiceBreaker,
        flacref::pcm::Signal::Wasted,
        flacref::pcm::Signal::StereoAnti,
        flacref::pcm::Signal::FullScaleSquare,
        flacref::pcm::Signal::Impulses,
        flacref::pcm::Signal::RampOverflow,
        flacref::pcm::Signal::Mixed,
        flacref::pcm::Signal::NoiseLow,
        flacref::pcm::Signal::PositionCoded,
    ];
    let mut worst_ratio_milli = 0u64;
    let mut i = 0u64;
    while i < 40 || ctx.time_left() {
        i += 1;
        let mut cfg = EncCfg::random(&mut rng);
        let constant_case = i % 4 == 0;
        if rng.chance(1, 3) {
            cfg.block_size = *rng.pick(&[16u16, 4096, 4608, 16384, 65535]);
        }
        let nblocks = rng.usize(1, 3);
        let frames = (cfg.block_size as usize * nblocks + if rng.chance(1, 2) { rng.usize(0, cfg.block_size as usize - 1) } else { 0 }).clamp(1, 140000);
        let sig = if constant_case { *rng.pick(&[flacref::pcm::Signal::Constant, flacref::pcm::Signal::Silence]) } else { *rng.pick(&adversarial) };
        let recipe = PcmRecipe { signal: sig, seed: rng.next(), frames };
        let pcm = recipe.make(cfg.channels as usize, cfg.bps);
        let front = *rng.pick(&FRONTS);
        rep.case_begin(&format!("{cfg:?} {recipe:?}"));
        rep.eval();
        rep.count("signal", format!("{sig:?}"));
        let replay = || J::obj().set("cfg", cfg.to_json()).set("front", format!("{front:?}")).set("recipe", recipe.to_json());
        let bytes = match mon::guard(|| encode(&cfg, front, &pcm)) {
            Ok(Ok(b)) => b,
            Ok(Err(e)) => {
                rep.violation("encode-error", format!("encode-error:{}", err_name(&e.err)), crate::api::show(&e), replay());
                continue;
            }
            Err(p) => {
                rep.violation("panic", p.signature(), p.msg.clone(), replay());
                continue;
            }
        };
        let d = match decode_file(&bytes, &Rules::LENIENT) {
            Ok(d) => d,
            Err(e) => {
                rep.violation("nonconforming", format!("refdec:{}", e.rule), format!("{e}"), replay());
                continue;
            }
        };
        let ch = cfg.channels as u64;
        for (fi, f) in d.frames.iter().enumerate() {
            let bound = frame_bound(f.block_size as u64, ch, cfg.bps as u64, f.ch_code >= 8);
            rep.count_n("frames_measured", "n", 1);
            let ratio = f.len as u64 * 1000 / bound;
            worst_ratio_milli = worst_ratio_milli.max(ratio);
            if f.len as u64 > bound {
                rep.violation(
                    "expansion",
                    "frame-larger-than-verbatim-bound",
                    format!("frame {fi}: {} bytes for {} samples x {ch} ch x {} bit (bound {bound}); subframes {:?}", f.len, f.block_size, cfg.bps, f.subframes.iter().map(|s| format!("{:?}", s.kind)).collect::<Vec<_>>()),
                    replay(),
                );
                break;
            }
            // constant blocks: every channel constant over the block
            let a = f.first_sample as usize;
            let b = a + f.block_size as usize;
            let all_const = d.pcm.iter().all(|c| c[a..b].iter().all(|s| *s == c[a]));
            if all_const {
                rep.count_n("constant_blocks_measured", "n", 1);
                let cb = 18 + 48 * ch;
                if f.len as u64 > cb {
                    rep.violation(
                        "expansion",
                        "constant-block-too-large",
                        format!("frame {fi}: a block of {} constant samples per channel costs {} bytes (bound {cb} = 18 + 48 x {ch} channels); subframes {:?} partition orders {:?}", f.block_size, f.len, f.subframes.iter().map(|s| format!("{:?}", s.kind)).collect::<Vec<_>>(), f.subframes.iter().map(|s| s.part_order).collect::<Vec<_>>()),
                        replay(),
                    );
                    break;
                }
            }
        }
        rep.nontrivial(fnv(&bytes));
        rep.sample(|| J::obj().set("cfg", cfg.to_json()).set("signal", format!("{sig:?}")).set("frames", d.frames.len()).set("bytes", bytes.len()).set("first_frame_bytes", d.frames[0].len).set("first_frame_bound", frame_bound(d.frames[0].block_size as u64, ch, cfg.bps as u64, d.frames[0].ch_code >= 8)));
    }
    rep.count_n("worst_frame_size_permille_of_bound", format!("{:04}", (worst_ratio_milli / 50) * 50), 1);
}
