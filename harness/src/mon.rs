//! Monitors: panic capture, thread CPU time, allocation accounting.

use std::alloc::{GlobalAlloc, Layout, System};
use std::cell::RefCell;
use std::sync::atomic::{AtomicBool, AtomicU64, AtomicUsize, Ordering};

// ---------------------------------------------------------------- panic ----

#[derive(Debug, Clone)]
pub struct PanicInfo {
    pub msg: String,
    pub location: String,
    /// first frame of the backtrace that lies inside flac_codec (function name)
    pub func: String,
}

impl PanicInfo {
    /// stable signature: message class + in-crate function
    pub fn signature(&self) -> String {
        let m: String = self.msg.chars().filter(|c| !c.is_ascii_digit()).take(60).collect();
        format!("panic:{}@{}", m.trim(), self.func)
    }
}

thread_local! {
    static LAST_PANIC: RefCell<Option<PanicInfo>> = const { RefCell::new(None) };
    static GUARD_DEPTH: std::cell::Cell<u32> = const { std::cell::Cell::new(0) };
}

fn first_crate_frame(bt: &str) -> String {
    // lines look like "  12: flac_codec::decode::read_residuals::read_block"
    for line in bt.lines() {
        let l = line.trim();
        if let Some(pos) = l.find("flac_codec::") {
            let name = &l[pos..];
            // strip generic hashes
            let name = name.split("::h").next().unwrap_or(name);
            let name = name.trim_end_matches('>').to_string();
            if name.contains("{{closure}}") || name.contains("{closure") {
                // keep the enclosing function
                let base: Vec<&str> = name.split("::").take_while(|p| !p.starts_with('{')).collect();
                return base.join("::");
            }
            return name;
        }
    }
    "?".to_string()
}

pub fn install_panic_hook() {
    std::panic::set_hook(Box::new(|info| {
        let msg = if let Some(s) = info.payload().downcast_ref::<&str>() {
            s.to_string()
        } else if let Some(s) = info.payload().downcast_ref::<String>() {
            s.clone()
        } else {
            "<non-string panic>".to_string()
        };
        let location = info.location().map(|l| format!("{}:{}", l.file(), l.line())).unwrap_or_default();
        let bt = std::backtrace::Backtrace::force_capture().to_string();
        let func = first_crate_frame(&bt);
        if GUARD_DEPTH.with(|d| d.get()) == 0 {
            // a panic outside any monitor is a harness bug: make it visible
            eprintln!("UNGUARDED PANIC: {msg} at {location}\n{bt}");
        }
        LAST_PANIC.with(|p| *p.borrow_mut() = Some(PanicInfo { msg, location, func }));
    }));
}

/// Runs `f`, converting a panic into Err(PanicInfo).
pub fn guard<R>(f: impl FnOnce() -> R) -> Result<R, PanicInfo> {
    LAST_PANIC.with(|p| *p.borrow_mut() = None);
    GUARD_DEPTH.with(|d| d.set(d.get() + 1));
    let r = std::panic::catch_unwind(std::panic::AssertUnwindSafe(f));
    GUARD_DEPTH.with(|d| d.set(d.get() - 1));
    match r {
        Ok(r) => Ok(r),
        Err(_) => Err(LAST_PANIC.with(|p| p.borrow_mut().take()).unwrap_or(PanicInfo {
            msg: "<panic without hook info>".into(),
            location: String::new(),
            func: "?".into(),
        })),
    }
}

// ------------------------------------------------------------- cpu time ----

#[repr(C)]
struct Timespec {
    tv_sec: i64,
    tv_nsec: i64,
}

unsafe extern "C" {
    fn clock_gettime(clk: i32, ts: *mut Timespec) -> i32;
}

const CLOCK_THREAD_CPUTIME_ID: i32 = 3;
const CLOCK_PROCESS_CPUTIME_ID: i32 = 2;

/// CPU time consumed by the whole process, in microseconds.
pub fn process_cpu_us() -> u64 {
    if cfg!(miri) {
        return 0;
    }
    let mut ts = Timespec { tv_sec: 0, tv_nsec: 0 };
    let rc = unsafe { clock_gettime(CLOCK_PROCESS_CPUTIME_ID, &mut ts) };
    if rc != 0 {
        return 0;
    }
    ts.tv_sec as u64 * 1_000_000 + ts.tv_nsec as u64 / 1000
}

static CASE_START_CPU: AtomicU64 = AtomicU64::new(0);
static CASE_BUDGET_US: AtomicU64 = AtomicU64::new(u64::MAX);

/// Marks the start of a case for the bounded-progress watchdog.
pub fn watchdog_case(input_bytes: usize) {
    CASE_BUDGET_US.store(cpu_budget_us(input_bytes), Ordering::Relaxed);
    CASE_START_CPU.store(process_cpu_us(), Ordering::Relaxed);
}

/// Starts the watchdog thread: if one case consumes more CPU than its budget
/// (CPU time, not wall time, so machine load does not matter) the process
/// exits with status 3 and the orchestrator attributes it to the last case
/// in the case log.
pub fn start_watchdog() {
    if cfg!(miri) {
        return;
    }
    watchdog_case(0);
    std::thread::spawn(|| loop {
        std::thread::sleep(std::time::Duration::from_millis(500));
        let used = process_cpu_us().saturating_sub(CASE_START_CPU.load(Ordering::Relaxed));
        if used > CASE_BUDGET_US.load(Ordering::Relaxed) {
            eprintln!("watchdog: case exceeded its CPU budget ({used} us)");
            std::process::exit(3);
        }
    });
}

/// CPU time consumed by the calling thread, in microseconds.
pub fn thread_cpu_us() -> u64 {
    if cfg!(miri) {
        return 0;
    }
    let mut ts = Timespec { tv_sec: 0, tv_nsec: 0 };
    let rc = unsafe { clock_gettime(CLOCK_THREAD_CPUTIME_ID, &mut ts) };
    if rc != 0 {
        return 0;
    }
    ts.tv_sec as u64 * 1_000_000 + ts.tv_nsec as u64 / 1000
}

static PROFILE_FACTOR: AtomicU64 = AtomicU64::new(1);

/// The CPU budget is calibrated for the optimised build; instrumented builds run the same code
/// several times slower (measured: checked ~3x, ASan ~7x, TSan ~10x), so their budget is scaled.
/// A bounded-progress verdict must not depend on which instrumentation is switched on.
pub fn set_profile(profile: &str) {
    let f = match profile {
        "checked" => 4,
        "asan" => 12,
        "tsan" => 20,
        _ => 1,
    };
    PROFILE_FACTOR.store(f, Ordering::Relaxed);
}

/// CPU budget for one case on `n` input bytes: 20 s + 1 ms per byte (times the profile factor).
pub fn cpu_budget_us(n: usize) -> u64 {
    (20_000_000 + 1000 * n as u64) * PROFILE_FACTOR.load(Ordering::Relaxed)
}

// ---------------------------------------------------------------- alloc ----

pub struct CountingAlloc;

static LIVE: AtomicUsize = AtomicUsize::new(0);
static PEAK: AtomicUsize = AtomicUsize::new(0);
static MAX_SINGLE: AtomicUsize = AtomicUsize::new(0);
static TRACK: AtomicBool = AtomicBool::new(false);

/// requests above this are refused (allocation failure aborts the shard and
/// the orchestrator attributes the abort to the running case)
pub const REFUSE_ABOVE: usize = 8 << 30;

unsafe impl GlobalAlloc for CountingAlloc {
    unsafe fn alloc(&self, l: Layout) -> *mut u8 {
        if l.size() > REFUSE_ABOVE {
            return std::ptr::null_mut();
        }
        let p = unsafe { System.alloc(l) };
        if !p.is_null() && TRACK.load(Ordering::Relaxed) {
            let live = LIVE.fetch_add(l.size(), Ordering::Relaxed) + l.size();
            PEAK.fetch_max(live, Ordering::Relaxed);
            MAX_SINGLE.fetch_max(l.size(), Ordering::Relaxed);
        }
        p
    }
    unsafe fn dealloc(&self, p: *mut u8, l: Layout) {
        unsafe { System.dealloc(p, l) };
        if TRACK.load(Ordering::Relaxed) {
            // saturating: memory allocated before tracking began may be freed now
            let _ = LIVE.fetch_update(Ordering::Relaxed, Ordering::Relaxed, |v| Some(v.saturating_sub(l.size())));
        }
    }
    unsafe fn realloc(&self, p: *mut u8, l: Layout, new: usize) -> *mut u8 {
        if new > REFUSE_ABOVE {
            return std::ptr::null_mut();
        }
        let q = unsafe { System.realloc(p, l, new) };
        if !q.is_null() && TRACK.load(Ordering::Relaxed) {
            if new >= l.size() {
                let d = new - l.size();
                let live = LIVE.fetch_add(d, Ordering::Relaxed) + d;
                PEAK.fetch_max(live, Ordering::Relaxed);
            } else {
                let d = l.size() - new;
                let _ = LIVE.fetch_update(Ordering::Relaxed, Ordering::Relaxed, |v| Some(v.saturating_sub(d)));
            }
            MAX_SINGLE.fetch_max(new, Ordering::Relaxed);
        }
        q
    }
}

/// Starts an accounting scope: live/peak are measured relative to now.
pub fn alloc_scope_begin() {
    LIVE.store(0, Ordering::Relaxed);
    PEAK.store(0, Ordering::Relaxed);
    MAX_SINGLE.store(0, Ordering::Relaxed);
    TRACK.store(true, Ordering::Relaxed);
}

/// Ends the scope; returns (peak live bytes above the starting level, largest single request).
pub fn alloc_scope_end() -> (usize, usize) {
    TRACK.store(false, Ordering::Relaxed);
    (PEAK.load(Ordering::Relaxed), MAX_SINGLE.load(Ordering::Relaxed))
}

/// allocation bound for an input of n bytes: 48 MiB + 64 n
pub fn alloc_bound(n: usize) -> usize {
    (48 << 20) + 64 * n
}

// ------------------------------------------------------ combined monitor ----

#[derive(Debug, Clone)]
pub struct Observed<R> {
    pub result: Result<R, PanicInfo>,
    pub cpu_us: u64,
    pub peak_alloc: usize,
    pub max_single_alloc: usize,
}

/// Runs one case under all three monitors.
pub fn observe<R>(f: impl FnOnce() -> R) -> Observed<R> {
    let t0 = thread_cpu_us();
    alloc_scope_begin();
    let result = guard(f);
    let (peak_alloc, max_single_alloc) = alloc_scope_end();
    let cpu_us = thread_cpu_us().saturating_sub(t0);
    Observed { result, cpu_us, peak_alloc, max_single_alloc }
}
