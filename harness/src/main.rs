//! flacmon command line: installs the counting allocator and runs the selected engine.

#[cfg(not(any(miri, feature = "noalloc")))]
#[global_allocator]
static ALLOC: flacmon::mon::CountingAlloc = flacmon::mon::CountingAlloc;

fn main() {
    flacmon::cli_main();
}
