//! Thin adapters over the flac-codec public API used by all engines.

use crate::json::J;
use flac_codec::byteorder::{BigEndian, LittleEndian};
use flac_codec::decode::{FlacByteReader, FlacChannelReader, FlacSampleReader, Metadata, Verified};
use flac_codec::encode::{FlacByteWriter, FlacChannelWriter, FlacSampleWriter, Options, Window};
use flacref::rng::Rng;
use std::io::{Read, Seek, Write};

#[derive(Debug, Clone, Copy, PartialEq, Eq, Hash)]
pub enum Win {
    Rectangle,
    Hann,
    Tukey(i32), // thousandths; i32::MIN = NaN
}

#[derive(Debug, Clone, Copy, PartialEq, Eq, Hash)]
pub enum Pad {
    Default,
    None,
    Size(u32),
}

#[derive(Debug, Clone, Copy, PartialEq, Eq, Hash)]
pub enum SeekPol {
    Default,
    Off,
    Frames(usize),
    Seconds(u8),
}

#[derive(Debug, Clone, PartialEq, Eq, Hash)]
pub struct EncCfg {
    pub channels: u8,
    pub bps: u32,
    pub rate: u32,
    pub block_size: u16,
    pub max_lpc: Option<u8>,
    pub max_part: u32,
    pub mid_side: bool,
    pub fast: bool,
    pub window: Win,
    pub padding: Pad,
    pub seek: SeekPol,
    pub declare_total: bool,
    /// extra metadata handed to `Options` (bit 0 tags, 1 picture, 2 application, 3 whole comment block,
    /// 4 cue sheet, 5 add_block/add_blocks)
    pub extras: u8,
}

impl EncCfg {
    pub fn default_for(channels: u8, bps: u32, rate: u32) -> Self {
        EncCfg {
            channels,
            bps,
            rate,
            block_size: 4096,
            max_lpc: Some(8),
            max_part: 5,
            mid_side: true,
            fast: false,
            window: Win::Tukey(500),
            padding: Pad::Default,
            seek: SeekPol::Default,
            declare_total: false,
            extras: 0,
        }
    }
    pub fn to_json(&self) -> J {
        J::obj()
            .set("channels", self.channels)
            .set("bps", self.bps)
            .set("rate", self.rate)
            .set("block_size", self.block_size as u32)
            .set("max_lpc", self.max_lpc.map(|x| x as u32))
            .set("max_part", self.max_part)
            .set("mid_side", self.mid_side)
            .set("fast", self.fast)
            .set("window", format!("{:?}", self.window))
            .set("padding", format!("{:?}", self.padding))
            .set("seek", format!("{:?}", self.seek))
            .set("declare_total", self.declare_total)
            .set("extras", self.extras as u32)
    }
    pub fn random(rng: &mut Rng) -> Self {
        let bps = match rng.below(6) {
            0 => *rng.pick(&[8u32, 16, 24, 32]),
            1 => *rng.pick(&[12u32, 20]),
            _ => rng.range(1, 32) as u32,
        };
        EncCfg {
            channels: if rng.chance(1, 2) { rng.range(1, 2) as u8 } else { rng.range(1, 8) as u8 },
            bps,
            rate: *rng.pick(&[0u32, 1, 8000, 11000, 11025, 12345, 44100, 44110, 48000, 65535, 65536, 96000, 192000, 255000, 655350, 655360, 700001, 768000, 1048570, 1048575]),
            block_size: *rng.pick(&[16u16, 17, 31, 32, 64, 192, 255, 256, 257, 576, 1024, 1152, 4096, 4608]),
            max_lpc: *rng.pick(&[None, Some(1), Some(2), Some(8), Some(12), Some(31), Some(32)]),
            max_part: rng.below(16) as u32,
            mid_side: rng.chance(1, 2),
            fast: rng.chance(1, 2),
            window: *rng.pick(&[
                Win::Rectangle,
                Win::Hann,
                Win::Tukey(500),
                Win::Tukey(-1000),
                Win::Tukey(0),
                Win::Tukey(10),
                Win::Tukey(990),
                Win::Tukey(1000),
                Win::Tukey(2000),
                Win::Tukey(i32::MIN),
            ]),
            padding: *rng.pick(&[Pad::Default, Pad::None, Pad::Size(0), Pad::Size(1), Pad::Size(17), Pad::Size(18), Pad::Size(22), Pad::Size(40), Pad::Size(58), Pad::Size(200), Pad::Size(65536)]),
            seek: *rng.pick(&[SeekPol::Default, SeekPol::Off, SeekPol::Frames(1), SeekPol::Frames(2), SeekPol::Frames(7), SeekPol::Seconds(1), SeekPol::Seconds(10), SeekPol::Seconds(255)]),
            declare_total: rng.chance(1, 2),
            extras: if rng.chance(1, 3) { rng.below(64) as u8 } else { 0 },
        }
    }
}

pub fn make_options(cfg: &EncCfg) -> Result<Options, String> {
    let mut o = Options::default()
        .block_size(cfg.block_size)
        .map_err(|e| format!("block_size: {e}"))?
        .max_lpc_order(cfg.max_lpc)
        .map_err(|e| format!("max_lpc_order: {e}"))?
        .max_partition_order(cfg.max_part)
        .map_err(|e| format!("max_partition_order: {e}"))?
        .mid_side(cfg.mid_side)
        .fast_channel_correlation(cfg.fast)
        .window(match cfg.window {
            Win::Rectangle => Window::Rectangle,
            Win::Hann => Window::Hann,
            Win::Tukey(i32::MIN) => Window::Tukey(f32::NAN),
            Win::Tukey(t) => Window::Tukey(t as f32 / 1000.0),
        });
    o = match cfg.padding {
        Pad::Default => o,
        Pad::None => o.no_padding(),
        Pad::Size(n) => o.padding(n).map_err(|e| format!("padding: {e}"))?,
    };
    o = match cfg.seek {
        SeekPol::Default => o,
        SeekPol::Off => o.no_seektable(),
        SeekPol::Frames(n) => o.seektable_frames(n),
        SeekPol::Seconds(s) => o.seektable_seconds(s),
    };
    // extra metadata through every Options entry point: the audio, STREAMINFO and SEEKTABLE of the
    // finished file must be unaffected by what else sits in the metadata section
    use flac_codec::metadata::{Application, Cuesheet, Picture, PictureType, VorbisComment};
    let x = cfg.extras;
    if x & 1 != 0 {
        o = o.tag("TITLE", "tuffy").tag("ARTIST", cfg.block_size).tag("title", "second");
    }
    if x & 2 != 0 {
        let img = flacref::meta::png_header(3, 2, 8, 2, None);
        match Picture::new(PictureType::FrontCover, "cover", img) {
            Ok(p) => o = o.picture(p),
            Err(e) => return Err(format!("picture: {e:?}")),
        }
    }
    if x & 4 != 0 {
        o = o.application(Application { id: Application::RIFF, data: vec![0xA5; (cfg.max_part as usize * 37) % 300] });
    }
    if x & 8 != 0 {
        let mut vc = VorbisComment::default();
        vc.vendor_string = "flacmon".into();
        vc.insert("ALBUM", "x=y");
        o = o.comment(vc);
    }
    if x & 16 != 0 {
        let text = "FILE \"a.wav\" WAVE\n  TRACK 01 AUDIO\n    INDEX 01 00:00:00\n  TRACK 02 AUDIO\n    INDEX 00 00:01:00\n    INDEX 01 00:02:00\n";
        match Cuesheet::parse(44100 * 600, text) {
            Ok(c) => o = o.cuesheet(c),
            Err(e) => return Err(format!("cuesheet: {e:?}")),
        }
    }
    if x & 32 != 0 {
        o.add_block(Application { id: Application::AIFF, data: vec![1, 2, 3] });
        o.add_blocks([Application { id: 0x41424344, data: vec![] }, Application { id: 0x41424345, data: vec![9; 40] }]);
    }
    Ok(o)
}

#[derive(Debug, Clone, Copy, PartialEq, Eq, Hash)]
pub enum Front {
    Sample,
    ByteLE,
    ByteBE,
    Channel,
}

pub const FRONTS: [Front; 4] = [Front::Sample, Front::ByteLE, Front::ByteBE, Front::Channel];

impl std::fmt::Display for EncErr {
    fn fmt(&self, f: &mut std::fmt::Formatter) -> std::fmt::Result {
        write!(f, "{}: {}", self.stage, self.err)
    }
}

#[derive(Debug, Clone, PartialEq, Eq)]
pub struct EncErr {
    pub stage: &'static str,
    pub err: String,
}

/// Debug rendering of an error (what the reports classify), after also running its Display
/// rendering: every error value the workloads provoke has its user-facing text produced once,
/// inside whatever monitor is active (rendering must be total too)
pub fn show<E: std::fmt::Debug + std::fmt::Display>(e: &E) -> String {
    let shown = e.to_string();
    std::hint::black_box(&shown);
    format!("{e:?}")
}

/// Scratch directory for the few scenarios that need real files: `<verif>/.build/tmp` derived from
/// the location of the running binary (`<verif>/.build/bin/flacmon-*`), else the system one.
pub fn scratch_dir() -> std::path::PathBuf {
    let d = std::env::current_exe()
        .ok()
        .and_then(|e| e.parent().and_then(|p| p.parent()).map(|p| p.join("tmp")))
        .filter(|p| p.parent().map(|q| q.ends_with(".build")).unwrap_or(false))
        .unwrap_or_else(|| std::env::temp_dir().join("flacmon-tmp"));
    let _ = std::fs::create_dir_all(&d);
    d
}

pub fn err_name(dbg: &str) -> String {
    let s = dbg.trim();
    if let Some(rest) = s.strip_prefix("Io(") {
        // keep the io kind
        if let Some(k) = rest.split("kind: ").nth(1) {
            return format!("Io:{}", k.split(|c: char| !c.is_alphanumeric()).next().unwrap_or(""));
        }
        return format!("Io:{}", rest.split(|c: char| !c.is_alphanumeric()).next().unwrap_or(""));
    }
    s.split(|c: char| !(c.is_alphanumeric() || c == '_')).next().unwrap_or("").to_string()
}

pub fn io_err_name(e: &std::io::Error) -> String {
    format!("Io:{:?}:{}", e.kind(), e.to_string().chars().take(50).collect::<String>())
}

/// Encodes `pcm` (interleaved) into `w`.  `splits` are the sizes of successive
/// write calls in the front-end's own unit (samples for Sample, bytes for
/// Byte*, PCM frames for Channel); empty = one call.
pub fn encode_into<W: Write + Seek>(w: W, cfg: &EncCfg, front: Front, pcm: &[i32], splits: &[usize]) -> Result<(), EncErr> {
    encode_into_tail(w, cfg, front, pcm, splits, 0)
}

/// Like `encode_into`, followed by `tail` stray units that do not make up a whole PCM frame
/// (samples for the sample writer, bytes for the byte writers; ignored by the channel writer,
/// whose interface cannot express a partial frame).  The caller keeps `tail` below one PCM frame
/// and leaves the total undeclared; the stray data must not influence the finished file.
pub fn encode_into_tail<W: Write + Seek>(w: W, cfg: &EncCfg, front: Front, pcm: &[i32], splits: &[usize], tail: usize) -> Result<(), EncErr> {
    let opts = make_options(cfg).map_err(|e| EncErr { stage: "options", err: e })?;
    let ch = cfg.channels as usize;
    let frames = if ch > 0 { pcm.len() / ch } else { 0 };
    let e = |stage: &'static str| move |e: flac_codec::Error| EncErr { stage, err: crate::api::show(&e) };
    let eio = |stage: &'static str| move |e: std::io::Error| EncErr { stage, err: format!("Io({e:?})") };
    match front {
        Front::Sample => {
            let total = cfg.declare_total.then_some(pcm.len() as u64);
            let mut wr = FlacSampleWriter::new(w, opts, cfg.rate, cfg.bps, cfg.channels, total).map_err(e("new"))?;
            if splits.is_empty() {
                wr.write(pcm).map_err(e("write"))?;
            } else {
                let mut pos = 0;
                for s in splits {
                    let end = (pos + s).min(pcm.len());
                    wr.write(&pcm[pos..end]).map_err(e("write"))?;
                    pos = end;
                }
                if pos < pcm.len() {
                    wr.write(&pcm[pos..]).map_err(e("write"))?;
                }
            }
            if tail > 0 {
                let stray: Vec<i32> = (0..tail).map(|i| if i % 2 == 0 { 1 } else { -1 }).collect();
                wr.write(&stray).map_err(e("write"))?;
            }
            wr.finalize().map_err(e("finalize"))
        }
        Front::ByteLE | Front::ByteBE => {
            let be = front == Front::ByteBE;
            let bytes = flacref::pcm::to_bytes(pcm, cfg.bps.clamp(1, 32), be);
            let total = cfg.declare_total.then_some(bytes.len() as u64);
            fn drive<W: Write + Seek, E: flac_codec::byteorder::Endianness>(
                mut wr: FlacByteWriter<W, E>,
                bytes: &[u8],
                splits: &[usize],
                tail: usize,
            ) -> Result<(), EncErr> {
                let eio = |stage: &'static str| move |e: std::io::Error| EncErr { stage, err: format!("Io({e:?})") };
                if splits.is_empty() {
                    wr.write_all(bytes).map_err(eio("write"))?;
                } else {
                    let mut pos = 0;
                    for (k, s) in splits.iter().enumerate() {
                        let end = (pos + s).min(bytes.len());
                        wr.write_all(&bytes[pos..end]).map_err(eio("write"))?;
                        pos = end;
                        // `Write::flush` between calls (what a buffered copy loop or `io::copy`
                        // wrapper may do at any time) must not influence the stream
                        if k % 2 == 1 {
                            wr.flush().map_err(eio("flush"))?;
                        }
                    }
                    if pos < bytes.len() {
                        wr.write_all(&bytes[pos..]).map_err(eio("write"))?;
                    }
                }
                if tail > 0 {
                    let stray: Vec<u8> = (0..tail).map(|i| 0x5A ^ i as u8).collect();
                    wr.write_all(&stray).map_err(eio("write"))?;
                }
                wr.finalize().map_err(|e| EncErr { stage: "finalize", err: crate::api::show(&e) })
            }
            let _ = eio;
            if be {
                let wr = FlacByteWriter::endian(w, BigEndian, opts, cfg.rate, cfg.bps, cfg.channels, total).map_err(e("new"))?;
                drive(wr, &bytes, splits, tail)
            } else {
                let wr = FlacByteWriter::endian(w, LittleEndian, opts, cfg.rate, cfg.bps, cfg.channels, total).map_err(e("new"))?;
                drive(wr, &bytes, splits, tail)
            }
        }
        Front::Channel => {
            let total = cfg.declare_total.then_some(frames as u64);
            let mut wr = FlacChannelWriter::new(w, opts, cfg.rate, cfg.bps, cfg.channels, total).map_err(e("new"))?;
            let chans = flacref::dec::deinterleave(pcm, ch.max(1));
            let mut pos = 0;
            let one = [frames];
            let plan: &[usize] = if splits.is_empty() { &one } else { splits };
            for s in plan {
                let end = (pos + s).min(frames);
                let part: Vec<&[i32]> = chans.iter().map(|c| &c[pos..end]).collect();
                wr.write(&part).map_err(e("write"))?;
                pos = end;
            }
            if pos < frames {
                let part: Vec<&[i32]> = chans.iter().map(|c| &c[pos..frames]).collect();
                wr.write(&part).map_err(e("write"))?;
            }
            wr.finalize().map_err(e("finalize"))
        }
    }
}

/// Encodes through a sink that accepts at most `max_write` bytes per write call
/// (0 = unlimited).
pub fn encode_short_writes(cfg: &EncCfg, front: Front, pcm: &[i32], max_write: usize) -> Result<Vec<u8>, EncErr> {
    let mut m = crate::io::Mem::new();
    m.max_write = max_write;
    encode_into(&mut m, cfg, front, pcm, &[])?;
    Ok(m.data)
}

pub fn encode(cfg: &EncCfg, front: Front, pcm: &[i32]) -> Result<Vec<u8>, EncErr> {
    let mut c = std::io::Cursor::new(Vec::new());
    encode_into(&mut c, cfg, front, pcm, &[])?;
    Ok(c.into_inner())
}

// ------------------------------------------------------------------ decode --

#[derive(Debug, Clone, Copy, PartialEq, Eq, Hash)]
pub enum Rd {
    SampleRead,
    SampleFill,
    SampleToEnd,
    SampleIter,
    ByteLE,
    ByteBE,
    ByteFillLE,
    Channel,
}

pub const READERS: [Rd; 8] = [Rd::SampleRead, Rd::SampleFill, Rd::SampleToEnd, Rd::SampleIter, Rd::ByteLE, Rd::ByteBE, Rd::ByteFillLE, Rd::Channel];

#[derive(Debug, Clone, PartialEq, Eq)]
pub struct Meta {
    pub channels: u8,
    pub bps: u32,
    pub rate: u32,
    pub total: Option<u64>,
    pub md5: Option<[u8; 16]>,
}

#[derive(Debug, Clone, PartialEq, Eq)]
pub struct Decode {
    /// None: the reader could not be opened (error in `error`)
    pub meta: Option<Meta>,
    /// everything delivered before the end / the error, interleaved
    pub samples: Vec<i32>,
    /// first error (Debug of flac_codec::Error or io::Error)
    pub error: Option<String>,
    /// how many extra polls after end-of-stream returned data (must be 0)
    pub polls_after_eos_with_data: u32,
    /// samples delivered but not kept (discard mode)
    pub delivered: u64,
    /// samples handed out by up to three further polls AFTER the reader reported an error
    /// (channel reader and sample reader; only meaningful for inputs that simply end, where
    /// nothing genuine can follow)
    pub samples_after_error: u64,
}

/// When set, `decode_all*` counts delivered samples instead of keeping them
/// (so that the allocation monitor sees the crate's memory, not the harness's).
pub static DISCARD: std::sync::atomic::AtomicBool = std::sync::atomic::AtomicBool::new(false);

impl Decode {
    /// bookkeeping after a chunk was appended; true when the output cap is exceeded
    fn after_chunk(&mut self, cap: usize) -> bool {
        if DISCARD.load(std::sync::atomic::Ordering::Relaxed) {
            self.delivered += self.samples.len() as u64;
            self.samples.clear();
        }
        if self.delivered as usize + self.samples.len() > cap {
            self.error = Some("OUTPUT-CAP".into());
            true
        } else {
            false
        }
    }
    pub fn total_delivered(&self) -> u64 {
        self.delivered + self.samples.len() as u64
    }
}

fn meta_of<M: Metadata>(m: &M) -> Meta {
    // the derived accessors are part of what a reader offers on any stream it opened
    std::hint::black_box((m.channel_mask(), m.decoded_len(), m.duration()));
    Meta { channels: m.channel_count(), bps: m.bits_per_sample(), rate: m.sample_rate(), total: m.total_samples(), md5: m.md5().copied() }
}

/// Reads a whole stream through the chosen front-end with read size `n` (in the front-end's unit).
pub fn decode_all<R: Read>(r: R, kind: Rd, n: usize) -> Decode {
    decode_all_capped(r, kind, n, usize::MAX)
}

/// As `decode_all`, but stops (error "OUTPUT-CAP") once more than `cap` samples were delivered.
pub fn decode_all_capped<R: Read>(r: R, kind: Rd, n: usize, cap: usize) -> Decode {
    let n = n.max(1);
    let mut out = Decode { meta: None, samples: vec![], error: None, polls_after_eos_with_data: 0, delivered: 0, samples_after_error: 0 };
    match kind {
        Rd::SampleRead | Rd::SampleFill | Rd::SampleToEnd | Rd::SampleIter => {
            let mut rd = match FlacSampleReader::new(r) {
                Ok(x) => x,
                Err(e) => {
                    out.error = Some(crate::api::show(&e));
                    return out;
                }
            };
            out.meta = Some(meta_of(&rd));
            match kind {
                Rd::SampleRead => {
                    let mut buf = vec![0i32; n];
                    loop {
                        match rd.read(&mut buf) {
                            Ok(0) => break,
                            Ok(k) => {
                                out.samples.extend_from_slice(&buf[..k]);
                                if out.after_chunk(cap) {
                                    return out;
                                }
                            }
                            Err(e) => {
                                out.error = Some(crate::api::show(&e));
                                for _ in 0..3 {
                                    if let Ok(k) = rd.read(&mut buf) {
                                        out.samples_after_error += k as u64;
                                    }
                                }
                                return out;
                            }
                        }
                    }
                    for _ in 0..3 {
                        if let Ok(k) = rd.read(&mut buf) {
                            if k > 0 {
                                out.polls_after_eos_with_data += 1;
                            }
                        }
                    }
                }
                Rd::SampleFill => {
                    loop {
                        match rd.fill_buf() {
                            Ok([]) => break,
                            Ok(b) => {
                                let k = n.min(b.len());
                                out.samples.extend_from_slice(&b[..k]);
                                rd.consume(k);
                                if out.after_chunk(cap) {
                                    return out;
                                }
                            }
                            Err(e) => {
                                out.error = Some(crate::api::show(&e));
                                return out;
                            }
                        }
                    }
                    for _ in 0..3 {
                        if let Ok(b) = rd.fill_buf() {
                            if !b.is_empty() {
                                out.polls_after_eos_with_data += 1;
                            }
                        }
                    }
                }
                Rd::SampleToEnd => {
                    let mut v = vec![];
                    match rd.read_to_end(&mut v) {
                        Ok(k) => {
                            if k != v.len() {
                                out.error = Some(format!("read_to_end returned {k} but appended {}", v.len()));
                            }
                        }
                        Err(e) => out.error = Some(crate::api::show(&e)),
                    }
                    out.samples = v;
                }
                _ => {
                    let mut it = rd.into_iter();
                    loop {
                        match it.next() {
                            None => break,
                            Some(Ok(s)) => {
                                out.samples.push(s);
                                if out.after_chunk(cap) {
                                    return out;
                                }
                            }
                            Some(Err(e)) => {
                                out.error = Some(crate::api::show(&e));
                                return out;
                            }
                        }
                    }
                    for _ in 0..3 {
                        if let Some(Ok(_)) = it.next() {
                            out.polls_after_eos_with_data += 1;
                        }
                    }
                }
            }
        }
        Rd::ByteLE | Rd::ByteBE | Rd::ByteFillLE => {
            fn run<R: Read, E: flac_codec::byteorder::Endianness>(r: R, be: bool, fill: bool, n: usize, cap: usize, out: &mut Decode) {
                use std::io::BufRead;
                let mut rd: FlacByteReader<R, E> = match FlacByteReader::new(r) {
                    Ok(x) => x,
                    Err(e) => {
                        out.error = Some(crate::api::show(&e));
                        return;
                    }
                };
                let meta = meta_of(&rd);
                let bps = meta.bps;
                out.meta = Some(meta);
                let mut bytes: Vec<u8> = vec![];
                let mut buf = vec![0u8; n];
                loop {
                    if DISCARD.load(std::sync::atomic::Ordering::Relaxed) {
                        out.delivered += (bytes.len() / bps.div_ceil(8).max(1) as usize) as u64;
                        bytes.clear();
                    }
                    if out.delivered as usize + bytes.len() / 4 > cap {
                        out.error = Some("OUTPUT-CAP".into());
                        break;
                    }
                    if fill {
                        match rd.fill_buf() {
                            Ok([]) => break,
                            Ok(b) => {
                                let k = n.min(b.len());
                                bytes.extend_from_slice(&b[..k]);
                                rd.consume(k);
                            }
                            Err(e) => {
                                out.error = Some(format!("Io({e:?})"));
                                break;
                            }
                        }
                    } else {
                        match rd.read(&mut buf) {
                            Ok(0) => break,
                            Ok(k) => bytes.extend_from_slice(&buf[..k]),
                            Err(e) => {
                                out.error = Some(format!("Io({e:?})"));
                                break;
                            }
                        }
                    }
                }
                if out.error.is_none() {
                    for _ in 0..3 {
                        if let Ok(k) = rd.read(&mut buf) {
                            if k > 0 {
                                out.polls_after_eos_with_data += 1;
                            }
                        }
                    }
                }
                let bpsb = bps.div_ceil(8) as usize;
                if bytes.len() % bpsb != 0 && out.error.is_none() {
                    out.error = Some(format!("byte reader delivered {} bytes, not a multiple of {bpsb}", bytes.len()));
                }
                out.samples = flacref::pcm::from_bytes(&bytes[..bytes.len() - bytes.len() % bpsb], bps, be);
            }
            match kind {
                Rd::ByteBE => run::<R, BigEndian>(r, true, false, n, cap, &mut out),
                Rd::ByteLE => run::<R, LittleEndian>(r, false, false, n, cap, &mut out),
                _ => run::<R, LittleEndian>(r, false, true, n, cap, &mut out),
            }
        }
        Rd::Channel => {
            let mut rd = match FlacChannelReader::new(r) {
                Ok(x) => x,
                Err(e) => {
                    out.error = Some(crate::api::show(&e));
                    return out;
                }
            };
            let meta = meta_of(&rd);
            let ch = meta.channels as usize;
            out.meta = Some(meta);
            loop {
                let take = match rd.fill_buf() {
                    Ok(b) => {
                        if b.len() != ch {
                            out.error = Some(format!("channel reader returned {} channels, expected {ch}", b.len()));
                            return out;
                        }
                        let l = b[0].len();
                        if b.iter().any(|c| c.len() != l) {
                            out.error = Some("channel reader returned ragged channels".into());
                            return out;
                        }
                        if l == 0 {
                            break;
                        }
                        let k = n.min(l);
                        for i in 0..k {
                            for c in b.iter() {
                                out.samples.push(c[i]);
                            }
                        }
                        k
                    }
                    Err(e) => {
                        out.error = Some(crate::api::show(&e));
                        for _ in 0..3 {
                            if let Ok(b) = rd.fill_buf() {
                                out.samples_after_error += b.iter().map(|c| c.len() as u64).sum::<u64>();
                                let l = b.first().map(|c| c.len()).unwrap_or(0);
                                rd.consume(l);
                            }
                        }
                        return out;
                    }
                };
                rd.consume(take);
                if out.after_chunk(cap) {
                    return out;
                }
            }
            for _ in 0..3 {
                if let Ok(b) = rd.fill_buf() {
                    if b.iter().any(|c| !c.is_empty()) {
                        out.polls_after_eos_with_data += 1;
                    }
                }
            }
        }
    }
    out
}

pub fn verify_bytes(b: &[u8]) -> Result<Verified, String> {
    flac_codec::decode::verify_reader(std::io::Cursor::new(b)).map_err(|e| crate::api::show(&e))
}
