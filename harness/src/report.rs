//! Per-shard report: what the monitors observed, written as JSON for the orchestrator.

use crate::json::J;
use std::collections::{BTreeMap, HashSet};
use std::io::Write;

#[derive(Debug, Clone)]
pub struct Violation {
    /// short class, e.g. "panic", "mismatch", "silent-accept", "cpu", "alloc"
    pub kind: String,
    /// stable signature used for known-finding matching
    pub sig: String,
    pub detail: String,
    pub replay: J,
}

pub struct Report {
    pub engine: String,
    pub evaluations: u64,
    distinct: HashSet<u64>,
    hist: BTreeMap<String, BTreeMap<String, u64>>,
    samples: Vec<J>,
    sample_seen: u64,
    pub violations: Vec<Violation>,
    pub violation_count: u64,
    pub notes: Vec<String>,
    pub max_cpu_us: u64,
    pub max_peak_alloc: usize,
    pub inconclusive: Vec<String>,
    pub exhaustive: Option<bool>,
    caselog: Option<std::fs::File>,
    rng_state: u64,
}

pub fn fnv(data: &[u8]) -> u64 {
    let mut h: u64 = 0xcbf29ce484222325;
    for b in data {
        h ^= *b as u64;
        h = h.wrapping_mul(0x100000001b3);
    }
    h
}

pub fn hash_str(s: &str) -> u64 {
    fnv(s.as_bytes())
}

impl Report {
    pub fn new(engine: &str, caselog_path: Option<&str>) -> Self {
        let caselog = caselog_path.and_then(|p| std::fs::OpenOptions::new().create(true).write(true).truncate(true).open(p).ok());
        Self {
            engine: engine.to_string(),
            evaluations: 0,
            distinct: HashSet::new(),
            hist: BTreeMap::new(),
            samples: vec![],
            sample_seen: 0,
            violations: vec![],
            violation_count: 0,
            notes: vec![],
            max_cpu_us: 0,
            max_peak_alloc: 0,
            inconclusive: vec![],
            exhaustive: None,
            caselog,
            rng_state: 0x1234567,
        }
    }

    /// Records the descriptor of the case about to run (unbuffered) so that a
    /// shard that dies can be attributed to its input.
    pub fn case_begin(&mut self, desc: &str) {
        self.case_begin_sized(desc, 1 << 20);
    }

    /// as `case_begin`, with the input size that scales the CPU budget
    pub fn case_begin_sized(&mut self, desc: &str, input_bytes: usize) {
        crate::mon::watchdog_case(input_bytes);
        if let Some(f) = &mut self.caselog {
            let _ = f.write_all(desc.as_bytes());
            let _ = f.write_all(b"\n");
        }
    }

    pub fn eval(&mut self) {
        self.evaluations += 1;
    }
    pub fn evals(&mut self, n: u64) {
        self.evaluations += n;
    }
    /// registers a distinct non-trivial case by its descriptor hash
    pub fn nontrivial(&mut self, h: u64) {
        self.distinct.insert(h);
    }
    pub fn distinct_count(&self) -> usize {
        self.distinct.len()
    }
    pub fn count(&mut self, dim: &str, key: impl std::fmt::Display) {
        self.count_n(dim, key, 1);
    }
    pub fn count_n(&mut self, dim: &str, key: impl std::fmt::Display, n: u64) {
        *self.hist.entry(dim.to_string()).or_default().entry(key.to_string()).or_insert(0) += n;
    }
    pub fn hist_get(&self, dim: &str, key: &str) -> u64 {
        self.hist.get(dim).and_then(|m| m.get(key)).copied().unwrap_or(0)
    }
    pub fn hist_keys(&self, dim: &str) -> usize {
        self.hist.get(dim).map(|m| m.len()).unwrap_or(0)
    }
    /// reservoir of up to 6 sample cases
    pub fn sample(&mut self, make: impl FnOnce() -> J) {
        self.sample_seen += 1;
        if self.samples.len() < 6 {
            self.samples.push(make());
        } else {
            self.rng_state = self.rng_state.wrapping_mul(6364136223846793005).wrapping_add(1442695040888963407);
            let r = (self.rng_state >> 33) % self.sample_seen;
            if r < 6 {
                self.samples[r as usize] = make();
            }
        }
    }
    pub fn violation(&mut self, kind: &str, sig: impl Into<String>, detail: impl Into<String>, replay: J) {
        self.violation_count += 1;
        let sig = sig.into();
        // keep at most 3 witnesses per signature and 60 overall
        let same = self.violations.iter().filter(|v| v.sig == sig).count();
        if same < 3 && self.violations.len() < 60 {
            self.violations.push(Violation { kind: kind.to_string(), sig, detail: detail.into(), replay });
        }
    }
    pub fn observe_cost(&mut self, cpu_us: u64, peak: usize) {
        self.max_cpu_us = self.max_cpu_us.max(cpu_us);
        self.max_peak_alloc = self.max_peak_alloc.max(peak);
    }

    pub fn to_json(&self) -> J {
        let mut hist = J::obj();
        for (d, m) in &self.hist {
            let mut o = J::obj();
            for (k, v) in m {
                o.put(k, *v);
            }
            hist.put(d, o);
        }
        let viol: Vec<J> = self
            .violations
            .iter()
            .map(|v| J::obj().set("kind", v.kind.as_str()).set("sig", v.sig.as_str()).set("detail", v.detail.as_str()).set("replay", v.replay.clone()))
            .collect();
        J::obj()
            .set("engine", self.engine.as_str())
            .set("evaluations", self.evaluations)
            .set("distinct", J::Arr(self.distinct.iter().map(|h| J::Str(format!("{h:016x}"))).collect()))
            .set("hist", hist)
            .set("samples", J::Arr(self.samples.clone()))
            .set("violations", J::Arr(viol))
            .set("violation_count", self.violation_count)
            .set("notes", J::Arr(self.notes.iter().map(|s| J::Str(s.clone())).collect()))
            .set("inconclusive", J::Arr(self.inconclusive.iter().map(|s| J::Str(s.clone())).collect()))
            .set("max_cpu_us", self.max_cpu_us)
            .set("max_peak_alloc", self.max_peak_alloc)
            .set("exhaustive", match self.exhaustive {
                Some(b) => J::Bool(b),
                None => J::Null,
            })
    }
}
