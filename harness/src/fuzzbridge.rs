//! Bridge between libFuzzer targets (`/verif/fuzz`) and the monitors of this crate.
//!
//! libFuzzer only chooses the bytes (coverage feedback reaches parser states that the
//! structure-aware generators were never aimed at); the verdict is produced by the same
//! oracles the sharded engines use.  A violation is printed as `FUZZ-VIOLATION <kind> <sig>:
//! <detail>` and the process aborts, which makes libFuzzer keep the input as a crash artifact.
//! The orchestrator then replays every artifact through the ordinary (non-fuzz) builds.

use crate::engines::{c03, c04, c11};
use crate::json::J;
use crate::mon;
use crate::report::Report;
use flacref::dec::{decode_file, Rules};
use flacref::sgen::{Md5Mode, SeekMode, StreamParams};

fn init() {
    static ONCE: std::sync::Once = std::sync::Once::new();
    // replaces libfuzzer-sys' abort-on-panic hook: panics are caught by mon::guard, classified,
    // and reported through finish() with the same signatures the engines use
    ONCE.call_once(|| {
        // the fuzz build is an ASan build: same CPU-budget scaling as the asan variant
        mon::set_profile("asan");
        mon::install_panic_hook();
    });
}

fn finish(rep: Report) {
    if rep.violations.is_empty() {
        return;
    }
    for v in &rep.violations {
        eprintln!("FUZZ-VIOLATION {} {}: {}", v.kind, v.sig, v.detail.chars().take(600).collect::<String>());
    }
    std::process::abort();
}

/// C04 monitors on every decoding entry point; C03 parity when the bytes are a valid stream
/// according to the independent reference decoder (strict rules).
pub fn decode(data: &[u8]) {
    init();
    let mut rep = Report::new("fz_decode", None);
    run_decode(&mut rep, data);
    finish(rep);
}

/// which oracle the decode target applies: FLACMON_FUZZ_MODE=total (C04 monitors only),
/// parity (C03 oracle only) or both (default)
fn mode() -> u8 {
    static MODE: std::sync::OnceLock<u8> = std::sync::OnceLock::new();
    *MODE.get_or_init(|| match std::env::var("FLACMON_FUZZ_MODE").as_deref() {
        Ok("total") => 1,
        Ok("parity") => 2,
        _ => 3,
    })
}

pub fn run_decode(rep: &mut Report, data: &[u8]) {
    run_decode_mode(rep, data, mode());
}

pub fn run_decode_mode(rep: &mut Report, data: &[u8], mode: u8) {
    let replay = || J::obj().set("bytes", J::hex(data)).set("origin", "fuzz artifact");
    if mode & 1 != 0 {
        c04::drive_all(rep, data, &replay, "fuzz");
        // drive_all switches the readers to discard mode (it only counts); the parity oracle needs the samples
        crate::api::DISCARD.store(false, std::sync::atomic::Ordering::Relaxed);
    }
    if mode & 2 != 0 && parity(rep, data) {
        rep.count("fuzz", "reference-valid inputs");
    }
}

/// C03 parity on arbitrary bytes: only when the strict reference accepts the whole input.
pub fn parity(rep: &mut Report, data: &[u8]) -> bool {
    let Ok(d) = decode_file(data, &Rules::STRICT) else { return false };
    if d.frames.is_empty() {
        return false;
    }
    // C03 is about the frame grammar: when the crate's own metadata reader refuses the metadata
    // section (e.g. a reserved picture type, which the reference does not judge) the stream is out of scope
    let meta_ok = mon::guard(|| flac_codec::metadata::read_blocks(std::io::Cursor::new(data)).all(|b| b.is_ok()));
    if !matches!(meta_ok, Ok(true)) {
        rep.count("fuzz", "reference-valid frames but metadata refused by the crate (out of scope for C03)");
        return false;
    }
    let params = StreamParams {
        channels: d.info.channels,
        bps: d.info.bps,
        rate: d.info.rate,
        variable: false,
        total_known: d.info.total != 0,
        md5: if d.info.md5 == [0u8; 16] { Md5Mode::Absent } else { Md5Mode::Correct },
        seek: SeekMode::None,
        start_number: 0,
        extra_blocks: vec![],
        min_max_block: None,
        frame_sizes: false,
    };
    let expect = d.interleaved();
    let replay = J::obj().set("flac", J::hex(data)).set("origin", "fuzz artifact");
    c03::judge_valid_stream(rep, "reference-valid fuzz input", data, &expect, &params, &replay, false);
    c03::judge_stream_reader(rep, "reference-valid fuzz input", data, &d, &replay);
    true
}

/// Custom mutator of the decode target.  libFuzzer's byte mutations almost always break a frame's
/// CRC-16, after which the decoder never looks at what was changed; three times out of four this
/// mutator therefore keeps the checksums of every frame consistent with the mutated bytes (frame
/// extents taken from the reference decoder's table of the input before mutation).
pub fn mutate_decode(data: &mut [u8], size: usize, max_size: usize, seed: u32, default: impl Fn(&mut [u8], usize, usize) -> usize) -> usize {
    use flacref::crc::{crc16, crc8};
    let mut rng = flacref::rng::Rng::new(seed as u64 ^ 0xF0221);
    let style = rng.below(4);
    if style == 0 || size < 50 {
        return default(data, size, max_size);
    }
    let frames = match decode_file(&data[..size], &Rules::LENIENT) {
        Ok(d) if !d.frames.is_empty() => d.frames,
        _ => return default(data, size, max_size),
    };
    if style == 1 {
        // our own biased mutation inside one frame, checksums repaired
        if let Some((out, _)) = c04::crc_repaired_mutation(&mut rng, &data[..size], &frames) {
            data[..size].copy_from_slice(&out);
        }
        return size;
    }
    // libFuzzer's mutation (dictionary, compare-guided ...), then repair when the layout is unchanged
    let before = data[..size].to_vec();
    let n = default(data, size, max_size);
    if n != size {
        return n;
    }
    for f in &frames {
        let end = f.offset + f.len;
        if end > size || f.len < f.header_len + 2 || data[f.offset..end] == before[f.offset..end] {
            continue;
        }
        let hend = f.offset + f.header_len - 1;
        data[hend] = crc8(&data[f.offset..hend]);
        let c = crc16(&data[f.offset..end - 2]);
        data[end - 2] = (c >> 8) as u8;
        data[end - 1] = c as u8;
    }
    n
}

/// C12 monitors on every metadata entry point, C11 re-read of whatever was accepted.
pub fn meta(data: &[u8]) {
    init();
    let mut rep = Report::new("fz_meta", None);
    run_meta(&mut rep, data);
    finish(rep);
}

pub fn run_meta(rep: &mut Report, data: &[u8]) {
    c11::drive_metadata_bytes(rep, data, "fuzz", "fuzz");
    c11::reread_accepted(rep, data, "fuzz");
    c11::drive_image(rep, data);
}

/// first 8 bytes: total sample count; rest: cue sheet text (lossy UTF-8)
pub fn cue(data: &[u8]) {
    init();
    let mut rep = Report::new("fz_cue", None);
    run_cue(&mut rep, data);
    finish(rep);
}

pub fn run_cue(rep: &mut Report, data: &[u8]) {
    let (total, text) = if data.len() >= 8 {
        (u64::from_le_bytes(data[..8].try_into().unwrap()) >> (data[0] % 40), String::from_utf8_lossy(&data[8..]).into_owned())
    } else {
        (44100 * 600, String::from_utf8_lossy(data).into_owned())
    };
    c11::drive_cue_text(rep, total, &text);
}

fn arg<'a>(ctx: &'a crate::Ctx, name: &str) -> Option<&'a str> {
    let mut it = ctx.extra.iter();
    while let Some(a) = it.next() {
        if a == name {
            return it.next().map(|s| s.as_str());
        }
    }
    None
}

/// `flacmon fuzzcorpus --dir D`: seed corpora (D/decode, D/meta, D/cue) from the structure-aware
/// generators, so that coverage-guided mutation starts from CRC-valid frames and well-formed sections.
pub fn emit_corpus(ctx: &crate::Ctx, rep: &mut Report) {
    use flacref::sgen::build_stream;
    let dir = arg(ctx, "--dir").unwrap_or("/verif/.build/fuzz-corpus").to_string();
    let mut rng = ctx.rng(0xF022);
    let put = |sub: &str, i: usize, b: &[u8]| {
        let d = format!("{dir}/{sub}");
        let _ = std::fs::create_dir_all(&d);
        std::fs::write(format!("{d}/seed-{i:04}"), b).expect("write corpus file");
    };
    let mut n = 0usize;
    let mut tries = 0;
    while n < 160 && tries < 4000 {
        tries += 1;
        let bytes = if tries % 3 == 0 {
            c04::malformed_case_in(&mut rng, None, tries % 9 == 0).0
        } else {
            let c = c03::random_case(&mut rng, false);
            build_stream(&c.params, &c.pcm, &c.plans).bytes
        };
        if bytes.len() <= 3000 {
            put("decode", n, &bytes);
            n += 1;
        }
    }
    rep.count_n("corpus", "decode", n as u64);
    for i in 0..120 {
        let b = if i % 2 == 0 { c11::extreme_section(&mut rng).0 } else { c11::crafted_section(&mut rng) };
        if b.len() <= 4000 {
            put("meta", i, &b);
        }
    }
    for i in 0..80 {
        let (total, text) = if i % 2 == 0 { c11::nearly_valid_cue_text(&mut rng) } else { c11::hostile_cue_text(&mut rng) };
        let mut b = total.to_le_bytes().to_vec();
        b[0] = 0; // shift 0 in run_cue
        b.extend(text.as_bytes());
        put("cue", i, &b);
    }
    rep.eval();
}

/// `flacmon fuzzreplay --target decode|meta|cue --file F [--file F ...]`: runs artifacts found by
/// libFuzzer through the same bridge in an ordinary build (release / checked) and reports the
/// violations through the normal report, so that the verdict does not depend on the fuzz build.
pub fn replay(ctx: &crate::Ctx, rep: &mut Report) {
    let target = arg(ctx, "--target").unwrap_or("decode").to_string();
    let mut files: Vec<String> = vec![];
    let mut it = ctx.extra.iter();
    while let Some(a) = it.next() {
        if a == "--file" {
            if let Some(f) = it.next() {
                files.push(f.clone());
            }
        } else if a == "--dir" {
            // every file of a directory (the corpus libFuzzer evolved), sharded by name order
            if let Some(d) = it.next() {
                let mut names: Vec<String> = std::fs::read_dir(d).map(|r| r.filter_map(|e| e.ok()).map(|e| e.path().to_string_lossy().into_owned()).collect()).unwrap_or_default();
                names.sort();
                files.extend(names.into_iter().enumerate().filter(|(i, _)| ctx.mine(*i as u64)).map(|(_, n)| n));
            }
        }
    }
    for f in &files {
        let Ok(data) = std::fs::read(f) else {
            rep.inconclusive.push(format!("artifact {f} unreadable"));
            continue;
        };
        if files.len() <= 64 {
            rep.count("artifact", f.rsplit('/').next().unwrap_or(f).to_string());
        }
        rep.count_n("replayed_units", "n", 1);
        let before = rep.violations.len();
        match target.as_str() {
            "decode" => run_decode(rep, &data),
            "decode-total" => run_decode_mode(rep, &data, 1),
            "decode-parity" => run_decode_mode(rep, &data, 2),
            "meta" => run_meta(rep, &data),
            _ => run_cue(rep, &data),
        }
        for v in rep.violations[before..].iter_mut() {
            v.detail = format!("[unit {f}] {}", v.detail);
        }
    }
}
