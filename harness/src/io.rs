//! I/O boundary recorders and fault injectors.  All are plain Read / Write /
//! Seek / BufRead objects over memory; events are recorded at the client
//! boundary (the object the crate is handed).

use std::io::{self, BufRead, Read, Seek, SeekFrom, Write};

#[derive(Debug, Clone, Copy, PartialEq, Eq, Hash)]
pub enum Op {
    Write,
    Flush,
    Seek,
    Read,
}

impl Op {
    pub fn name(&self) -> &'static str {
        match self {
            Op::Write => "write",
            Op::Flush => "flush",
            Op::Seek => "seek",
            Op::Read => "read",
        }
    }
    fn idx(&self) -> usize {
        match self {
            Op::Write => 0,
            Op::Flush => 1,
            Op::Seek => 2,
            Op::Read => 3,
        }
    }
}

#[derive(Debug, Clone, Copy, PartialEq, Eq, Hash)]
pub enum FaultMode {
    /// this call and every later call of the kind fail
    Permanent,
    /// only this call fails
    Transient,
    /// legal partial transfer: only part of the buffer is written / read
    Short,
    /// this call fails with ErrorKind::Interrupted (callers are expected to retry)
    Interrupted,
}

#[derive(Debug, Clone, Copy, PartialEq, Eq, Hash)]
pub struct Fault {
    pub op: Op,
    /// 0-based index among calls of this kind
    pub index: u64,
    pub mode: FaultMode,
}

#[derive(Debug, Clone)]
pub struct Event {
    pub op: Op,
    /// position before the call
    pub pos: u64,
    /// bytes actually transferred (write/read) or target position (seek)
    pub arg: u64,
    pub data: Vec<u8>,
    pub ok: bool,
}

/// In-memory read/write/seek object with optional event recording and one injected fault.
#[derive(Debug, Clone, Default)]
pub struct Mem {
    pub data: Vec<u8>,
    pub pos: u64,
    pub record: bool,
    pub log: Vec<Event>,
    pub fault: Option<Fault>,
    pub counts: [u64; 4],
    /// number of faults actually delivered
    pub faults_hit: u64,
    /// cap on the size of a single read (0 = unlimited)
    pub max_read: usize,
    /// cap on the bytes accepted by a single write (0 = unlimited): a sink that
    /// legally performs short writes, like a pipe or a chunk-limited wrapper
    pub max_write: usize,
}

impl Mem {
    pub fn new() -> Self {
        Self::default()
    }
    pub fn with_data(data: Vec<u8>) -> Self {
        Self { data, ..Self::default() }
    }
    pub fn recording(mut self) -> Self {
        self.record = true;
        self
    }
    pub fn with_fault(mut self, f: Fault) -> Self {
        self.fault = Some(f);
        self
    }
    pub fn count(&self, op: Op) -> u64 {
        self.counts[op.idx()]
    }
    /// Should this call (of kind `op`) fail?  Advances the per-kind counter.
    fn check(&mut self, op: Op) -> Option<FaultMode> {
        let i = self.counts[op.idx()];
        self.counts[op.idx()] += 1;
        match self.fault {
            Some(f) if f.op == op => match f.mode {
                FaultMode::Permanent if i >= f.index => Some(FaultMode::Permanent),
                m if i == f.index => Some(m),
                _ => None,
            },
            _ => None,
        }
    }
    fn err(&mut self, mode: FaultMode) -> io::Error {
        self.faults_hit += 1;
        match mode {
            FaultMode::Interrupted => io::Error::new(io::ErrorKind::Interrupted, "injected interrupt"),
            _ => io::Error::other("injected fault"),
        }
    }
    fn log(&mut self, op: Op, pos: u64, arg: u64, data: &[u8], ok: bool) {
        if self.record {
            self.log.push(Event { op, pos, arg, data: data.to_vec(), ok });
        }
    }
    /// Reconstructs the byte image after the first `n` logged events (starting
    /// from `initial`).
    pub fn image_after(initial: &[u8], log: &[Event], n: usize) -> Vec<u8> {
        let mut img = initial.to_vec();
        for e in &log[..n] {
            if e.op == Op::Write && e.ok {
                let p = e.pos as usize;
                if img.len() < p + e.data.len() {
                    img.resize(p + e.data.len(), 0);
                }
                img[p..p + e.data.len()].copy_from_slice(&e.data);
            }
        }
        img
    }
}

impl Write for Mem {
    fn write(&mut self, buf: &[u8]) -> io::Result<usize> {
        let pos = self.pos;
        let mut n = buf.len();
        if self.max_write > 0 {
            n = n.min(self.max_write);
        }
        match self.check(Op::Write) {
            Some(FaultMode::Short) => {
                self.faults_hit += 1;
                n = (n / 2).max(1).min(buf.len());
            }
            Some(m) => {
                self.log(Op::Write, pos, 0, &[], false);
                return Err(self.err(m));
            }
            None => {}
        }
        let p = pos as usize;
        if self.data.len() < p + n {
            self.data.resize(p + n, 0);
        }
        self.data[p..p + n].copy_from_slice(&buf[..n]);
        self.pos += n as u64;
        self.log(Op::Write, pos, n as u64, &buf[..n], true);
        Ok(n)
    }
    fn flush(&mut self) -> io::Result<()> {
        let pos = self.pos;
        match self.check(Op::Flush) {
            Some(FaultMode::Short) | None => {
                self.log(Op::Flush, pos, 0, &[], true);
                Ok(())
            }
            Some(m) => {
                self.log(Op::Flush, pos, 0, &[], false);
                Err(self.err(m))
            }
        }
    }
}

impl Seek for Mem {
    fn seek(&mut self, to: SeekFrom) -> io::Result<u64> {
        let pos = self.pos;
        match self.check(Op::Seek) {
            Some(FaultMode::Short) | None => {}
            Some(m) => {
                self.log(Op::Seek, pos, 0, &[], false);
                return Err(self.err(m));
            }
        }
        let new = match to {
            SeekFrom::Start(p) => Some(p),
            SeekFrom::Current(d) => pos.checked_add_signed(d),
            SeekFrom::End(d) => (self.data.len() as u64).checked_add_signed(d),
        };
        match new {
            Some(p) => {
                self.pos = p;
                self.log(Op::Seek, pos, p, &[], true);
                Ok(p)
            }
            None => Err(io::Error::new(io::ErrorKind::InvalidInput, "seek before start")),
        }
    }
}

impl Read for Mem {
    fn read(&mut self, buf: &mut [u8]) -> io::Result<usize> {
        let pos = self.pos;
        let avail = self.data.len().saturating_sub(pos as usize);
        let mut n = buf.len().min(avail);
        if self.max_read > 0 {
            n = n.min(self.max_read);
        }
        match self.check(Op::Read) {
            Some(FaultMode::Short) => {
                self.faults_hit += 1;
                if n > 1 {
                    n = (n / 2).max(1);
                }
            }
            Some(m) => {
                self.log(Op::Read, pos, 0, &[], false);
                return Err(self.err(m));
            }
            None => {}
        }
        buf[..n].copy_from_slice(&self.data[pos as usize..pos as usize + n]);
        self.pos += n as u64;
        self.log(Op::Read, pos, n as u64, &[], true);
        Ok(n)
    }
}

/// Read (+Seek) source that serves reads according to a segmentation plan.
#[derive(Debug, Clone)]
pub struct Chunked {
    pub data: Vec<u8>,
    pub pos: usize,
    /// sizes of successive reads, cycled; empty = unlimited
    pub plan: Vec<usize>,
    pub step: usize,
    pub reads: u64,
}

impl Chunked {
    pub fn new(data: Vec<u8>, plan: Vec<usize>) -> Self {
        Self { data, pos: 0, plan, step: 0, reads: 0 }
    }
    /// two chunks: first `split` bytes arrive in one read, the rest unrestricted
    pub fn split_at(data: Vec<u8>, split: usize) -> SplitSource {
        SplitSource { data, pos: 0, split }
    }
}

impl Read for Chunked {
    fn read(&mut self, buf: &mut [u8]) -> io::Result<usize> {
        self.reads += 1;
        let avail = self.data.len() - self.pos.min(self.data.len());
        let mut n = buf.len().min(avail);
        if !self.plan.is_empty() {
            let lim = self.plan[self.step % self.plan.len()].max(1);
            self.step += 1;
            n = n.min(lim);
        }
        buf[..n].copy_from_slice(&self.data[self.pos..self.pos + n]);
        self.pos += n;
        Ok(n)
    }
}

impl Seek for Chunked {
    fn seek(&mut self, to: SeekFrom) -> io::Result<u64> {
        let new = match to {
            SeekFrom::Start(p) => Some(p),
            SeekFrom::Current(d) => (self.pos as u64).checked_add_signed(d),
            SeekFrom::End(d) => (self.data.len() as u64).checked_add_signed(d),
        };
        match new {
            Some(p) => {
                self.pos = p as usize;
                Ok(p)
            }
            None => Err(io::Error::new(io::ErrorKind::InvalidInput, "seek before start")),
        }
    }
}

/// A source whose reads never cross the byte offset `split`.
#[derive(Debug, Clone)]
pub struct SplitSource {
    pub data: Vec<u8>,
    pub pos: usize,
    pub split: usize,
}

impl Read for SplitSource {
    fn read(&mut self, buf: &mut [u8]) -> io::Result<usize> {
        let avail = self.data.len() - self.pos.min(self.data.len());
        let mut n = buf.len().min(avail);
        if self.pos < self.split {
            n = n.min(self.split - self.pos);
        }
        buf[..n].copy_from_slice(&self.data[self.pos..self.pos + n]);
        self.pos += n;
        Ok(n)
    }
}

/// BufRead whose internal buffer boundaries fall exactly at `bounds`
/// (sorted absolute offsets); `fill_buf` never returns bytes beyond the next bound.
#[derive(Debug, Clone)]
pub struct SegBuf {
    pub data: Vec<u8>,
    pub pos: usize,
    pub bounds: Vec<usize>,
    /// additionally cap every buffer to this many bytes (0 = no cap)
    pub cap: usize,
    pub fills: u64,
}

impl SegBuf {
    pub fn new(data: Vec<u8>, mut bounds: Vec<usize>, cap: usize) -> Self {
        bounds.sort_unstable();
        Self { data, pos: 0, bounds, cap, fills: 0 }
    }
    fn end(&self) -> usize {
        let mut e = self.data.len();
        for b in &self.bounds {
            if *b > self.pos {
                e = e.min(*b);
                break;
            }
        }
        if self.cap > 0 {
            e = e.min(self.pos + self.cap);
        }
        e
    }
}

impl Read for SegBuf {
    fn read(&mut self, buf: &mut [u8]) -> io::Result<usize> {
        let e = self.end();
        let n = buf.len().min(e - self.pos);
        buf[..n].copy_from_slice(&self.data[self.pos..self.pos + n]);
        self.pos += n;
        Ok(n)
    }
}

impl BufRead for SegBuf {
    fn fill_buf(&mut self) -> io::Result<&[u8]> {
        self.fills += 1;
        let e = self.end();
        Ok(&self.data[self.pos..e])
    }
    fn consume(&mut self, amt: usize) {
        self.pos = (self.pos + amt).min(self.data.len());
    }
}
