//! Minimal JSON value + serialiser (no third-party crates).
use std::collections::BTreeMap;
use std::fmt::Write;

#[derive(Debug, Clone, PartialEq)]
pub enum J {
    Null,
    Bool(bool),
    Int(i64),
    UInt(u64),
    Float(f64),
    Str(String),
    Arr(Vec<J>),
    Obj(BTreeMap<String, J>),
}

impl J {
    pub fn obj() -> J {
        J::Obj(BTreeMap::new())
    }
    pub fn set(mut self, k: &str, v: impl Into<J>) -> J {
        if let J::Obj(m) = &mut self {
            m.insert(k.to_string(), v.into());
        }
        self
    }
    pub fn put(&mut self, k: &str, v: impl Into<J>) {
        if let J::Obj(m) = self {
            m.insert(k.to_string(), v.into());
        }
    }
    pub fn hex(b: &[u8]) -> J {
        let mut s = String::with_capacity(b.len() * 2);
        for x in b {
            let _ = write!(s, "{x:02x}");
        }
        J::Str(s)
    }
    pub fn ints(v: &[i32]) -> J {
        J::Arr(v.iter().map(|x| J::Int(*x as i64)).collect())
    }
    pub fn write(&self, out: &mut String) {
        match self {
            J::Null => out.push_str("null"),
            J::Bool(b) => out.push_str(if *b { "true" } else { "false" }),
            J::Int(i) => {
                let _ = write!(out, "{i}");
            }
            J::UInt(u) => {
                let _ = write!(out, "{u}");
            }
            J::Float(f) => {
                if f.is_finite() {
                    let _ = write!(out, "{f}");
                } else {
                    out.push_str("null");
                }
            }
            J::Str(s) => {
                out.push('"');
                for c in s.chars() {
                    match c {
                        '"' => out.push_str("\\\""),
                        '\\' => out.push_str("\\\\"),
                        '\n' => out.push_str("\\n"),
                        '\r' => out.push_str("\\r"),
                        '\t' => out.push_str("\\t"),
                        c if (c as u32) < 0x20 => {
                            let _ = write!(out, "\\u{:04x}", c as u32);
                        }
                        c => out.push(c),
                    }
                }
                out.push('"');
            }
            J::Arr(a) => {
                out.push('[');
                for (i, v) in a.iter().enumerate() {
                    if i > 0 {
                        out.push(',');
                    }
                    v.write(out);
                }
                out.push(']');
            }
            J::Obj(m) => {
                out.push('{');
                for (i, (k, v)) in m.iter().enumerate() {
                    if i > 0 {
                        out.push(',');
                    }
                    J::Str(k.clone()).write(out);
                    out.push(':');
                    v.write(out);
                }
                out.push('}');
            }
        }
    }
    pub fn to_string(&self) -> String {
        let mut s = String::new();
        self.write(&mut s);
        s
    }
}

impl From<bool> for J {
    fn from(v: bool) -> J {
        J::Bool(v)
    }
}
impl From<i64> for J {
    fn from(v: i64) -> J {
        J::Int(v)
    }
}
impl From<i32> for J {
    fn from(v: i32) -> J {
        J::Int(v as i64)
    }
}
impl From<u64> for J {
    fn from(v: u64) -> J {
        J::UInt(v)
    }
}
impl From<u32> for J {
    fn from(v: u32) -> J {
        J::UInt(v as u64)
    }
}
impl From<u8> for J {
    fn from(v: u8) -> J {
        J::UInt(v as u64)
    }
}
impl From<usize> for J {
    fn from(v: usize) -> J {
        J::UInt(v as u64)
    }
}
impl From<f64> for J {
    fn from(v: f64) -> J {
        J::Float(v)
    }
}
impl From<&str> for J {
    fn from(v: &str) -> J {
        J::Str(v.to_string())
    }
}
impl From<String> for J {
    fn from(v: String) -> J {
        J::Str(v)
    }
}
impl From<Vec<J>> for J {
    fn from(v: Vec<J>) -> J {
        J::Arr(v)
    }
}
impl<T: Into<J>> From<Option<T>> for J {
    fn from(v: Option<T>) -> J {
        match v {
            Some(x) => x.into(),
            None => J::Null,
        }
    }
}

// ---- tiny parser (for replay files) ----

pub fn parse(s: &str) -> Result<J, String> {
    let b = s.as_bytes();
    let mut p = 0usize;
    let v = parse_value(b, &mut p)?;
    skip_ws(b, &mut p);
    if p != b.len() {
        return Err(format!("trailing data at {p}"));
    }
    Ok(v)
}

fn skip_ws(b: &[u8], p: &mut usize) {
    while *p < b.len() && (b[*p] as char).is_ascii_whitespace() {
        *p += 1;
    }
}

fn parse_value(b: &[u8], p: &mut usize) -> Result<J, String> {
    skip_ws(b, p);
    if *p >= b.len() {
        return Err("eof".into());
    }
    match b[*p] {
        b'{' => {
            *p += 1;
            let mut m = BTreeMap::new();
            loop {
                skip_ws(b, p);
                if *p < b.len() && b[*p] == b'}' {
                    *p += 1;
                    break;
                }
                let k = match parse_value(b, p)? {
                    J::Str(s) => s,
                    _ => return Err("key".into()),
                };
                skip_ws(b, p);
                if *p >= b.len() || b[*p] != b':' {
                    return Err("colon".into());
                }
                *p += 1;
                let v = parse_value(b, p)?;
                m.insert(k, v);
                skip_ws(b, p);
                if *p < b.len() && b[*p] == b',' {
                    *p += 1;
                }
            }
            Ok(J::Obj(m))
        }
        b'[' => {
            *p += 1;
            let mut a = vec![];
            loop {
                skip_ws(b, p);
                if *p < b.len() && b[*p] == b']' {
                    *p += 1;
                    break;
                }
                a.push(parse_value(b, p)?);
                skip_ws(b, p);
                if *p < b.len() && b[*p] == b',' {
                    *p += 1;
                }
            }
            Ok(J::Arr(a))
        }
        b'"' => {
            *p += 1;
            let mut s = String::new();
            while *p < b.len() && b[*p] != b'"' {
                if b[*p] == b'\\' {
                    *p += 1;
                    match b.get(*p) {
                        Some(b'n') => s.push('\n'),
                        Some(b'r') => s.push('\r'),
                        Some(b't') => s.push('\t'),
                        Some(b'u') => {
                            let h = std::str::from_utf8(&b[*p + 1..*p + 5]).map_err(|e| e.to_string())?;
                            s.push(char::from_u32(u32::from_str_radix(h, 16).map_err(|e| e.to_string())?).unwrap_or('?'));
                            *p += 4;
                        }
                        Some(c) => s.push(*c as char),
                        None => return Err("escape".into()),
                    }
                    *p += 1;
                } else {
                    // copy one utf-8 char
                    let start = *p;
                    *p += 1;
                    while *p < b.len() && (b[*p] & 0xC0) == 0x80 {
                        *p += 1;
                    }
                    s.push_str(std::str::from_utf8(&b[start..*p]).map_err(|e| e.to_string())?);
                }
            }
            *p += 1;
            Ok(J::Str(s))
        }
        b't' => {
            *p += 4;
            Ok(J::Bool(true))
        }
        b'f' => {
            *p += 5;
            Ok(J::Bool(false))
        }
        b'n' => {
            *p += 4;
            Ok(J::Null)
        }
        _ => {
            let start = *p;
            while *p < b.len() && matches!(b[*p], b'-' | b'+' | b'.' | b'e' | b'E' | b'0'..=b'9') {
                *p += 1;
            }
            let t = std::str::from_utf8(&b[start..*p]).unwrap();
            if let Ok(i) = t.parse::<i64>() {
                Ok(J::Int(i))
            } else if let Ok(u) = t.parse::<u64>() {
                Ok(J::UInt(u))
            } else {
                t.parse::<f64>().map(J::Float).map_err(|e| format!("{t}: {e}"))
            }
        }
    }
}

impl J {
    pub fn get(&self, k: &str) -> Option<&J> {
        match self {
            J::Obj(m) => m.get(k),
            _ => None,
        }
    }
    pub fn as_u64(&self) -> Option<u64> {
        match self {
            J::Int(i) if *i >= 0 => Some(*i as u64),
            J::UInt(u) => Some(*u),
            _ => None,
        }
    }
    pub fn as_i64(&self) -> Option<i64> {
        match self {
            J::Int(i) => Some(*i),
            J::UInt(u) => i64::try_from(*u).ok(),
            _ => None,
        }
    }
    pub fn as_str(&self) -> Option<&str> {
        match self {
            J::Str(s) => Some(s),
            _ => None,
        }
    }
    pub fn as_bool(&self) -> Option<bool> {
        match self {
            J::Bool(b) => Some(*b),
            _ => None,
        }
    }
    pub fn as_arr(&self) -> Option<&[J]> {
        match self {
            J::Arr(a) => Some(a),
            _ => None,
        }
    }
    pub fn unhex(&self) -> Option<Vec<u8>> {
        let s = self.as_str()?;
        (0..s.len() / 2).map(|i| u8::from_str_radix(&s[2 * i..2 * i + 2], 16).ok()).collect()
    }
}
