//! flacmon — workload drivers and runtime monitors for the flac-codec properties (library part;
//! `main.rs` adds the counting allocator and calls `cli_main`, `fuzz/` calls `fuzzbridge`).

#![allow(dead_code)]
pub mod api;
pub mod engines;
pub mod fuzzbridge;
pub mod io;
pub mod json;
pub mod mon;
pub mod report;

#[derive(Debug, Clone)]
pub struct Ctx {
    pub seed: u64,
    pub shard: u64,
    pub nshards: u64,
    pub thorough: bool,
    /// soft budget for the random-exploration part, seconds
    pub budget_s: f64,
    pub profile: String,
    pub start: std::time::Instant,
    pub replay: Option<String>,
    pub extra: Vec<String>,
}

impl Ctx {
    pub fn time_left(&self) -> bool {
        self.start.elapsed().as_secs_f64() < self.budget_s
    }
    pub fn rng(&self, tag: u64) -> flacref::rng::Rng {
        flacref::rng::Rng::new(self.seed.wrapping_mul(0x9E3779B97F4A7C15) ^ (self.shard << 32) ^ tag)
    }
    /// is work item `i` assigned to this shard?
    pub fn mine(&self, i: u64) -> bool {
        i % self.nshards == self.shard
    }
}

pub fn cli_main() {
    let args: Vec<String> = std::env::args().collect();
    if args.len() < 2 {
        eprintln!("usage: flacmon <engine> [--seed N] [--shard i/n] [--tier quick|thorough] [--budget S] [--profile P] [--out FILE] [--replay FILE]");
        std::process::exit(2);
    }
    let engine = args[1].clone();
    let mut ctx = Ctx {
        seed: 1,
        shard: 0,
        nshards: 1,
        thorough: false,
        budget_s: 20.0,
        profile: "release".into(),
        start: std::time::Instant::now(),
        replay: None,
        extra: vec![],
    };
    let mut out: Option<String> = None;
    let mut i = 2;
    while i < args.len() {
        let v = args.get(i + 1).cloned().unwrap_or_default();
        match args[i].as_str() {
            "--seed" => ctx.seed = v.parse().unwrap_or(1),
            "--shard" => {
                let mut p = v.split('/');
                ctx.shard = p.next().and_then(|x| x.parse().ok()).unwrap_or(0);
                ctx.nshards = p.next().and_then(|x| x.parse().ok()).unwrap_or(1);
            }
            "--tier" => ctx.thorough = v == "thorough",
            "--budget" => ctx.budget_s = v.parse().unwrap_or(20.0),
            "--profile" => ctx.profile = v.clone(),
            "--out" => out = Some(v.clone()),
            "--replay" => ctx.replay = Some(v.clone()),
            other => {
                ctx.extra.push(other.to_string());
                i += 1;
                continue;
            }
        }
        i += 2;
    }
    mon::set_profile(&ctx.profile);
    mon::install_panic_hook();
    mon::start_watchdog();
    let caselog = out.as_ref().map(|o| format!("{o}.caselog"));
    let mut rep = report::Report::new(&engine, caselog.as_deref());
    let known = engines::run(&engine, &ctx, &mut rep);
    if !known {
        eprintln!("unknown engine {engine}");
        std::process::exit(2);
    }
    let js = rep.to_json().set("profile", ctx.profile.as_str()).set("shard", ctx.shard).set("wall_s", ctx.start.elapsed().as_secs_f64());
    match out {
        Some(o) => {
            std::fs::write(&o, js.to_string()).expect("write report");
        }
        None => println!("{}", js.to_string()),
    }
}
