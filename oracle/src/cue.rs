//! Cue sheet text generator + the layout the text describes (independent model).

use crate::rng::Rng;

pub const SAMPLES_PER_FRAME: u64 = 588;

#[derive(Debug, Clone, PartialEq, Eq)]
pub struct ModelIndex {
    pub number: u8,
    /// absolute position in samples
    pub position: u64,
}

#[derive(Debug, Clone, PartialEq, Eq)]
pub struct ModelTrack {
    pub number: u8,
    pub isrc: Option<String>,
    pub pre_emphasis: bool,
    pub indices: Vec<ModelIndex>,
}

#[derive(Debug, Clone, PartialEq, Eq)]
pub struct CueModel {
    pub catalog: Option<String>,
    pub tracks: Vec<ModelTrack>,
    pub total_samples: u64,
}

impl CueModel {
    /// [INDEX 01 of track i, INDEX 01 of track i+1), last one ends at the total
    pub fn track_ranges(&self) -> Vec<(u64, u64)> {
        let starts: Vec<u64> = self.tracks.iter().map(|t| t.indices.iter().find(|i| i.number == 1).unwrap().position).collect();
        let mut out = vec![];
        for (i, s) in starts.iter().enumerate() {
            let e = if i + 1 < starts.len() { starts[i + 1] } else { self.total_samples };
            out.push((*s, e));
        }
        out
    }
}

pub fn msf(position_samples: u64) -> String {
    let frames = position_samples / SAMPLES_PER_FRAME;
    format!("{:02}:{:02}:{:02}", frames / 75 / 60, (frames / 75) % 60, frames % 75)
}

#[derive(Debug, Clone, Copy, PartialEq, Eq)]
pub struct TextStyle {
    pub crlf: bool,
    pub indent: bool,
    pub trailing_blanks: bool,
    pub final_newline: bool,
    pub noise_lines: bool,
    pub quote_catalog: bool,
    pub quote_isrc: bool,
    pub dashed_isrc: bool,
}

fn isrc(rng: &mut Rng) -> String {
    let letters = b"ABCDEFGHIJKLMNOPQRSTUVWXYZ";
    let alnum = b"ABCDEFGHIJKLMNOPQRSTUVWXYZ0123456789";
    let mut s = String::new();
    for _ in 0..2 {
        s.push(*rng.pick(letters) as char);
    }
    for _ in 0..3 {
        s.push(*rng.pick(alnum) as char);
    }
    for _ in 0..7 {
        s.push((b'0' + rng.below(10) as u8) as char);
    }
    s
}

/// Generates a well-formed cue sheet (for a stream that is a whole number of CD
/// sectors long) and the layout it describes.
pub fn generate(rng: &mut Rng, style: TextStyle, max_tracks: usize, long_disc: bool) -> (String, CueModel) {
    let ntracks = rng.usize(1, max_tracks.clamp(1, 99));
    let mut pos_frames: u64 = 0; // in CD frames (1/75 s)
    let mut tracks = vec![];
    let step_max = if long_disc { 75 * 60 * 40 } else { 75 * 60 * 3 };
    for t in 0..ntracks {
        let has_pregap = rng.chance(1, 3);
        let extra = match rng.below(6) {
            0 => rng.usize(1, 98), // many indices
            1 => 98,
            _ => rng.usize(0, 3),
        };
        let mut indices = vec![];
        let mut number = if has_pregap { 0u8 } else { 1u8 };
        let count = (if has_pregap { 2 } else { 1 }) + extra;
        let count = count.min(if has_pregap { 100 } else { 99 });
        for k in 0..count {
            if !(t == 0 && k == 0) {
                pos_frames += rng.range(1, step_max as i64) as u64;
            }
            indices.push(ModelIndex { number, position: pos_frames * SAMPLES_PER_FRAME });
            number += 1;
        }
        tracks.push(ModelTrack {
            number: (t + 1) as u8,
            isrc: if rng.chance(1, 2) { Some(isrc(rng)) } else { None },
            pre_emphasis: rng.chance(1, 3),
            indices,
        });
    }
    pos_frames += rng.range(1, step_max as i64) as u64;
    let total_samples = pos_frames * SAMPLES_PER_FRAME;
    let catalog = if rng.chance(1, 2) { Some((0..13).map(|_| (b'0' + rng.below(10) as u8) as char).collect::<String>()) } else { None };
    // text
    let nl = if style.crlf { "\r\n" } else { "\n" };
    let tb = |rng: &mut Rng| if style.trailing_blanks { [" ", "  ", "\t", ""][rng.below(4) as usize] } else { "" };
    let ind = |n: usize| if style.indent { " ".repeat(n) } else { String::new() };
    let mut lines: Vec<String> = vec![];
    if style.noise_lines {
        lines.push("REM GENRE \"Test\"".into());
        lines.push("PERFORMER \"Somebody\"".into());
        lines.push("TITLE \"A Disc\"".into());
    }
    if let Some(c) = &catalog {
        lines.push(if style.quote_catalog { format!("CATALOG \"{c}\"") } else { format!("CATALOG {c}") });
    }
    lines.push("FILE \"audio.flac\" FLAC".into());
    for t in &tracks {
        lines.push(format!("{}TRACK {:02} AUDIO", ind(2), t.number));
        if style.noise_lines {
            lines.push(format!("{}TITLE \"Track {}\"", ind(4), t.number));
        }
        if let Some(i) = &t.isrc {
            let shown = if style.dashed_isrc { format!("{}-{}-{}-{}", &i[0..2], &i[2..5], &i[5..7], &i[7..12]) } else { i.clone() };
            lines.push(if style.quote_isrc { format!("{}ISRC \"{shown}\"", ind(4)) } else { format!("{}ISRC {shown}", ind(4)) });
        }
        if t.pre_emphasis {
            lines.push(format!("{}FLAGS PRE", ind(4)));
        }
        for i in &t.indices {
            lines.push(format!("{}INDEX {:02} {}", ind(4), i.number, msf(i.position)));
        }
    }
    let mut text = String::new();
    for (k, l) in lines.iter().enumerate() {
        text.push_str(l);
        text.push_str(tb(rng));
        if k + 1 < lines.len() || style.final_newline {
            text.push_str(nl);
        }
    }
    (text, CueModel { catalog, tracks, total_samples })
}
