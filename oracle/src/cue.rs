//! Cue sheet text generator + layout model.
