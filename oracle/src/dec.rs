//! Strict reference decoder / validator written from RFC 9639.
//!
//! It parses every bit itself (own bit reader, bit-serial CRCs, own MD5) and
//! either returns the complete structure + PCM of a stream or the first rule
//! that the stream violates.  Nothing here comes from flac-codec.

use crate::bits::{BitReader, Eof};
use crate::crc::{crc16, crc8};

#[derive(Debug, Clone, PartialEq, Eq)]
pub struct StreamInfo {
    pub min_block: u16,
    pub max_block: u16,
    pub min_frame: u32,
    pub max_frame: u32,
    pub rate: u32,
    pub channels: u8,
    pub bps: u8,
    pub total: u64,
    pub md5: [u8; 16],
}

impl StreamInfo {
    pub fn parse(b: &[u8]) -> Option<Self> {
        if b.len() != 34 {
            return None;
        }
        let mut r = BitReader::new(b);
        let min_block = r.u(16).ok()? as u16;
        let max_block = r.u(16).ok()? as u16;
        let min_frame = r.u(24).ok()? as u32;
        let max_frame = r.u(24).ok()? as u32;
        let rate = r.u(20).ok()? as u32;
        let channels = r.u(3).ok()? as u8 + 1;
        let bps = r.u(5).ok()? as u8 + 1;
        let total = r.u(36).ok()?;
        let mut md5 = [0u8; 16];
        md5.copy_from_slice(r.bytes(16).ok()?);
        Some(Self { min_block, max_block, min_frame, max_frame, rate, channels, bps, total, md5 })
    }
    pub fn to_bytes(&self) -> [u8; 34] {
        let mut w = crate::bits::BitWriter::new();
        w.u(16, self.min_block as u64);
        w.u(16, self.max_block as u64);
        w.u(24, self.min_frame as u64);
        w.u(24, self.max_frame as u64);
        w.u(20, self.rate as u64);
        w.u(3, (self.channels - 1) as u64);
        w.u(5, (self.bps - 1) as u64);
        w.u(36, self.total);
        w.bytes(&self.md5);
        let v = w.into_bytes();
        let mut out = [0u8; 34];
        out.copy_from_slice(&v);
        out
    }
}

#[derive(Debug, Clone, PartialEq, Eq)]
pub struct MetaBlock {
    pub btype: u8,
    pub last: bool,
    /// offset of the 4-byte block header from the start of the data
    pub offset: usize,
    /// body length
    pub len: usize,
}

#[derive(Debug, Clone, Copy, PartialEq, Eq)]
pub struct SeekPoint {
    pub sample: u64,
    pub offset: u64,
    pub nsamples: u16,
}

impl SeekPoint {
    pub fn is_placeholder(&self) -> bool {
        self.sample == u64::MAX
    }
}

#[derive(Debug, Clone, Copy, PartialEq, Eq, Hash, PartialOrd, Ord)]
pub enum SubKind {
    Constant,
    Verbatim,
    Fixed(u8),
    Lpc(u8),
}

#[derive(Debug, Clone, PartialEq, Eq)]
pub struct PartInfo {
    /// Rice parameter, or the escape width when `escape` is true
    pub param: u8,
    pub escape: bool,
    pub len: u32,
}

#[derive(Debug, Clone, PartialEq, Eq)]
pub struct SubframeInfo {
    pub kind: SubKind,
    pub wasted: u32,
    /// bits per sample of this subframe before wasted bits are removed
    pub bps: u32,
    pub precision: u8,
    pub shift: i8,
    pub coefs: Vec<i32>,
    pub method: u8,
    pub part_order: u8,
    pub parts: Vec<PartInfo>,
    pub bits: usize,
}

#[derive(Debug, Clone, PartialEq, Eq)]
pub struct FrameInfo {
    pub offset: usize,
    pub len: usize,
    pub variable: bool,
    /// the coded number as written (frame number or first sample number)
    pub number: u64,
    pub number_bytes: usize,
    pub number_minimal: bool,
    pub first_sample: u64,
    pub block_size: u32,
    pub bs_code: u8,
    pub rate_code: u8,
    pub rate: u32,
    pub ch_code: u8,
    pub channels: u8,
    pub bps_code: u8,
    pub bps: u8,
    pub reserved_bit: bool,
    pub header_len: usize,
    pub padding_bits: u8,
    pub padding_zero: bool,
    pub subframes: Vec<SubframeInfo>,
}

#[derive(Debug, Clone)]
pub struct Reject {
    pub rule: &'static str,
    pub at_byte: usize,
    pub frame: Option<usize>,
    pub detail: String,
}

impl std::fmt::Display for Reject {
    fn fmt(&self, f: &mut std::fmt::Formatter) -> std::fmt::Result {
        write!(f, "{} @byte {} frame {:?}: {}", self.rule, self.at_byte, self.frame, self.detail)
    }
}

fn rej<T>(rule: &'static str, at_byte: usize, detail: impl Into<String>) -> Result<T, Reject> {
    Err(Reject { rule, at_byte, frame: None, detail: detail.into() })
}

#[derive(Debug, Clone, Copy)]
pub struct Rules {
    /// coded numbers must use the minimal number of bytes
    pub minimal_numbers: bool,
    /// padding bits before the CRC-16 must be zero
    pub zero_padding: bool,
    /// frame / sample numbers must be consecutive from 0
    pub consecutive: bool,
    /// fixed-blocksize streams: every non-final block == the advertised size;
    /// min/max block size in STREAMINFO respected
    pub blocksize_consistency: bool,
    /// the reserved frame-header bit must be 0
    pub reserved_bit_zero: bool,
    /// (block >> partition order) must be > predictor order (RFC wording);
    /// when false equality (empty first partition) is tolerated
    pub first_partition_nonempty: bool,
    /// every reconstructed sample must fit its bit depth
    pub sample_fit: bool,
    /// decoded PCM must hash to the STREAMINFO MD5 when it is non-zero
    pub md5: bool,
    /// decoded length must equal STREAMINFO total when it is non-zero
    pub total: bool,
    /// STREAMINFO min/max frame size (when non-zero) bound the frame lengths
    pub frame_sizes: bool,
    /// nothing may follow the last frame
    pub no_trailing: bool,
    /// a block of <= 14 samples is only allowed as the last block
    pub short_block_last: bool,
    /// metadata layout rules beyond what is needed to find the frames
    pub metadata_strict: bool,
}

impl Rules {
    pub const STRICT: Rules = Rules {
        minimal_numbers: true,
        zero_padding: true,
        consecutive: true,
        blocksize_consistency: true,
        reserved_bit_zero: true,
        first_partition_nonempty: true,
        sample_fit: true,
        md5: true,
        total: true,
        frame_sizes: true,
        no_trailing: true,
        short_block_last: true,
        metadata_strict: true,
    };
    /// Only what every reading of the RFC makes invalid.
    pub const LENIENT: Rules = Rules {
        minimal_numbers: false,
        zero_padding: false,
        consecutive: false,
        blocksize_consistency: false,
        reserved_bit_zero: false,
        first_partition_nonempty: false,
        sample_fit: true,
        md5: false,
        total: true,
        frame_sizes: false,
        no_trailing: true,
        short_block_last: false,
        metadata_strict: false,
    };
}

#[derive(Debug, Clone)]
pub struct Decoded {
    pub info: StreamInfo,
    pub blocks: Vec<MetaBlock>,
    pub seektable: Option<Vec<SeekPoint>>,
    pub frames_start: usize,
    pub frames: Vec<FrameInfo>,
    /// decoded samples per channel
    pub pcm: Vec<Vec<i32>>,
    /// bytes consumed (== input length unless trailing data is tolerated)
    pub end: usize,
}

impl Decoded {
    pub fn interleaved(&self) -> Vec<i32> {
        interleave(&self.pcm)
    }
    pub fn total_samples(&self) -> u64 {
        self.pcm.first().map(|c| c.len() as u64).unwrap_or(0)
    }
}

pub fn interleave(ch: &[Vec<i32>]) -> Vec<i32> {
    if ch.is_empty() {
        return vec![];
    }
    let n = ch[0].len();
    let mut out = Vec::with_capacity(n * ch.len());
    for i in 0..n {
        for c in ch {
            out.push(c[i]);
        }
    }
    out
}

pub fn deinterleave(data: &[i32], channels: usize) -> Vec<Vec<i32>> {
    let mut out = vec![Vec::with_capacity(data.len() / channels.max(1)); channels];
    for (i, s) in data.iter().enumerate() {
        out[i % channels].push(*s);
    }
    out
}

/// Walks "fLaC" + metadata blocks.  Returns (blocks, offset of first frame).
pub fn walk_metadata(data: &[u8], strict: bool) -> Result<(StreamInfo, Vec<MetaBlock>, Option<Vec<SeekPoint>>, usize), Reject> {
    if data.len() < 4 || &data[0..4] != b"fLaC" {
        return rej("marker", 0, "missing fLaC");
    }
    let mut off = 4usize;
    let mut blocks = Vec::new();
    let mut info = None;
    let mut seektable = None;
    let mut seen_vc = false;
    loop {
        if off + 4 > data.len() {
            return rej("metadata-truncated", off, "block header truncated");
        }
        let h = data[off];
        let last = h & 0x80 != 0;
        let btype = h & 0x7f;
        let len = ((data[off + 1] as usize) << 16) | ((data[off + 2] as usize) << 8) | data[off + 3] as usize;
        if off + 4 + len > data.len() {
            return rej("metadata-truncated", off, format!("block type {btype} len {len} exceeds data"));
        }
        let body = &data[off + 4..off + 4 + len];
        if blocks.is_empty() {
            if btype != 0 {
                return rej("streaminfo-first", off, format!("first block type {btype}"));
            }
            if len != 34 {
                return rej("streaminfo-size", off, format!("len {len}"));
            }
            let si = StreamInfo::parse(body).unwrap();
            if strict {
                if si.min_block < 16 || si.max_block < 16 {
                    return rej("streaminfo-blocksize", off, format!("{} {}", si.min_block, si.max_block));
                }
                if si.min_block > si.max_block {
                    return rej("streaminfo-blocksize", off, "min > max");
                }
            }
            info = Some(si);
        } else {
            match btype {
                0 => return rej("streaminfo-multiple", off, ""),
                127 => return rej("metadata-type-forbidden", off, ""),
                3 => {
                    if seektable.is_some() {
                        return rej("seektable-multiple", off, "");
                    }
                    if len % 18 != 0 {
                        return rej("seektable-size", off, format!("{len}"));
                    }
                    let mut pts = Vec::with_capacity(len / 18);
                    for p in body.chunks(18) {
                        pts.push(SeekPoint {
                            sample: u64::from_be_bytes(p[0..8].try_into().unwrap()),
                            offset: u64::from_be_bytes(p[8..16].try_into().unwrap()),
                            nsamples: u16::from_be_bytes(p[16..18].try_into().unwrap()),
                        });
                    }
                    if strict {
                        let mut prev: Option<u64> = None;
                        let mut seen_placeholder = false;
                        for p in &pts {
                            if p.is_placeholder() {
                                seen_placeholder = true;
                            } else {
                                if seen_placeholder {
                                    return rej("seektable-placeholder-order", off, "");
                                }
                                if let Some(pv) = prev {
                                    if p.sample <= pv {
                                        return rej("seektable-ascending", off, format!("{} after {}", p.sample, pv));
                                    }
                                }
                                prev = Some(p.sample);
                            }
                        }
                    }
                    seektable = Some(pts);
                }
                4 => {
                    if strict && seen_vc {
                        return rej("vorbiscomment-multiple", off, "");
                    }
                    seen_vc = true;
                }
                7..=126 if strict => return rej("metadata-type-reserved", off, format!("{btype}")),
                _ => {}
            }
        }
        blocks.push(MetaBlock { btype, last, offset: off, len });
        off += 4 + len;
        if last {
            break;
        }
    }
    Ok((info.unwrap(), blocks, seektable, off))
}

fn eof(at: usize) -> Reject {
    Reject { rule: "truncated-frame", at_byte: at, frame: None, detail: "ran out of data".into() }
}

trait OrEof<T> {
    fn oe(self, r: &BitReader) -> Result<T, Reject>;
}
impl<T> OrEof<T> for Result<T, Eof> {
    fn oe(self, r: &BitReader) -> Result<T, Reject> {
        self.map_err(|_| eof(r.byte_pos()))
    }
}

pub const FIXED_COEFS: [&[i64]; 5] = [&[], &[1], &[2, -1], &[3, -3, 1], &[4, -6, 4, -1]];

const UNARY_LIMIT: u64 = 1 << 33;

/// Decodes one residual block into `out[order..]`.
fn decode_residual(
    r: &mut BitReader,
    block: usize,
    order: usize,
    out: &mut [i64],
    rules: &Rules,
    sf: &mut SubframeInfo,
) -> Result<(), Reject> {
    let method = r.u(2).oe(r)? as u8;
    if method > 1 {
        return rej("coding-method-reserved", r.byte_pos(), format!("{method}"));
    }
    sf.method = method;
    let pbits = if method == 0 { 4 } else { 5 };
    let esc = (1u64 << pbits) - 1;
    let po = r.u(4).oe(r)? as usize;
    sf.part_order = po as u8;
    let nparts = 1usize << po;
    if block % nparts != 0 {
        return rej("partition-order-divides", r.byte_pos(), format!("block {block} order {po}"));
    }
    let plen = block >> po;
    // RFC 9639 9.2.7.1: (block size >> partition order) MUST be larger than the predictor order
    if plen < order {
        return rej("partition-order-too-large", r.byte_pos(), format!("block {block} po {po} pred {order}"));
    }
    if plen == order && rules.first_partition_nonempty {
        return rej("first-partition-empty", r.byte_pos(), format!("block {block} po {po} pred {order}"));
    }
    let mut idx = order;
    for p in 0..nparts {
        let n = if p == 0 { plen - order } else { plen };
        let param = r.u(pbits).oe(r)?;
        if param == esc {
            let w = r.u(5).oe(r)? as u32;
            sf.parts.push(PartInfo { param: w as u8, escape: true, len: n as u32 });
            for _ in 0..n {
                let v = if w == 0 { 0 } else { r.i(w).oe(r)? };
                out[idx] = v;
                idx += 1;
            }
        } else {
            sf.parts.push(PartInfo { param: param as u8, escape: false, len: n as u32 });
            let k = param as u32;
            for _ in 0..n {
                let q = match r.unary0(UNARY_LIMIT) {
                    Ok(q) => q,
                    Err(None) => return Err(eof(r.byte_pos())),
                    Err(Some(_)) => return rej("residual-range", r.byte_pos(), "unary run too long"),
                };
                let rem = r.u(k).oe(r)?;
                let folded: u128 = ((q as u128) << k) | rem as u128;
                if folded > (u32::MAX as u128) {
                    return rej("residual-range", r.byte_pos(), format!("folded {folded}"));
                }
                let folded = folded as u64;
                let v: i64 = if folded & 1 == 1 { -(((folded >> 1) as i64) + 1) } else { (folded >> 1) as i64 };
                // representable in 32-bit signed excluding the most negative value
                if v <= i32::MIN as i64 || v > i32::MAX as i64 {
                    return rej("residual-range", r.byte_pos(), format!("{v}"));
                }
                out[idx] = v;
                idx += 1;
            }
        }
    }
    // escaped residuals: same range rule
    for v in &out[order..] {
        if *v <= i32::MIN as i64 || *v > i32::MAX as i64 {
            return rej("residual-range", r.byte_pos(), format!("{v}"));
        }
    }
    debug_assert_eq!(idx, block);
    Ok(())
}

fn fits(v: i64, bits: u32) -> bool {
    let lo = -(1i64 << (bits - 1));
    let hi = (1i64 << (bits - 1)) - 1;
    v >= lo && v <= hi
}

fn decode_subframe(
    r: &mut BitReader,
    block: usize,
    bps: u32,
    rules: &Rules,
) -> Result<(SubframeInfo, Vec<i64>), Reject> {
    let start_bit = r.bit_pos();
    if r.bit().oe(r)? != 0 {
        return rej("subframe-pad-bit", r.byte_pos(), "");
    }
    let t = r.u(6).oe(r)? as u8;
    let kind = match t {
        0 => SubKind::Constant,
        1 => SubKind::Verbatim,
        8..=12 => SubKind::Fixed(t - 8),
        32..=63 => SubKind::Lpc(t - 31),
        _ => return rej("subframe-type-reserved", r.byte_pos(), format!("{t:06b}")),
    };
    let mut wasted = 0u32;
    if r.bit().oe(r)? == 1 {
        let k = match r.unary0(64) {
            Ok(k) => k,
            Err(None) => return Err(eof(r.byte_pos())),
            Err(Some(_)) => return rej("wasted-bits", r.byte_pos(), "run > 64"),
        };
        wasted = k as u32 + 1;
    }
    if wasted >= bps {
        return rej("wasted-bits", r.byte_pos(), format!("wasted {wasted} >= bps {bps}"));
    }
    let eb = bps - wasted;
    let mut sf = SubframeInfo {
        kind,
        wasted,
        bps,
        precision: 0,
        shift: 0,
        coefs: vec![],
        method: 0,
        part_order: 0,
        parts: vec![],
        bits: 0,
    };
    let mut out = vec![0i64; block];
    match kind {
        SubKind::Constant => {
            let v = r.i(eb).oe(r)?;
            out.iter_mut().for_each(|s| *s = v);
        }
        SubKind::Verbatim => {
            for s in out.iter_mut() {
                *s = r.i(eb).oe(r)?;
            }
        }
        SubKind::Fixed(o) => {
            let o = o as usize;
            if o > block {
                return rej("predictor-order-gt-block", r.byte_pos(), format!("fixed {o} block {block}"));
            }
            for s in out.iter_mut().take(o) {
                *s = r.i(eb).oe(r)?;
            }
            decode_residual(r, block, o, &mut out, rules, &mut sf)?;
            let c = FIXED_COEFS[o];
            for i in o..block {
                let mut pred: i64 = 0;
                for (j, cj) in c.iter().enumerate() {
                    pred += cj * out[i - 1 - j];
                }
                out[i] += pred;
                if rules.sample_fit && !fits(out[i], eb) {
                    return rej("sample-fit", r.byte_pos(), format!("fixed sample {} at {i} does not fit {eb} bits", out[i]));
                }
            }
        }
        SubKind::Lpc(o) => {
            let o = o as usize;
            if o > block {
                return rej("predictor-order-gt-block", r.byte_pos(), format!("lpc {o} block {block}"));
            }
            for s in out.iter_mut().take(o) {
                *s = r.i(eb).oe(r)?;
            }
            let p = r.u(4).oe(r)? as u8;
            if p == 15 {
                return rej("lpc-precision-reserved", r.byte_pos(), "");
            }
            let prec = p + 1;
            let shift = r.i(5).oe(r)? as i8;
            if shift < 0 {
                return rej("lpc-negative-shift", r.byte_pos(), format!("{shift}"));
            }
            let mut coefs = Vec::with_capacity(o);
            for _ in 0..o {
                coefs.push(r.i(prec as u32).oe(r)? as i32);
            }
            sf.precision = prec;
            sf.shift = shift;
            sf.coefs = coefs.clone();
            decode_residual(r, block, o, &mut out, rules, &mut sf)?;
            for i in o..block {
                let mut pred: i64 = 0;
                for (j, cj) in coefs.iter().enumerate() {
                    pred += (*cj as i64) * out[i - 1 - j];
                }
                out[i] += pred >> shift;
                if rules.sample_fit && !fits(out[i], eb) {
                    return rej("sample-fit", r.byte_pos(), format!("lpc sample {} at {i} does not fit {eb} bits", out[i]));
                }
            }
        }
    }
    if rules.sample_fit {
        for (i, v) in out.iter().enumerate() {
            if !fits(*v, eb) {
                return rej("sample-fit", r.byte_pos(), format!("sample {v} at {i} does not fit {eb} bits"));
            }
        }
    }
    if wasted > 0 {
        for s in out.iter_mut() {
            *s <<= wasted;
        }
    }
    sf.bits = r.bit_pos() - start_bit;
    Ok((sf, out))
}

/// Parses the UTF-8-like coded number.  Returns (value, bytes, minimal).
fn coded_number(r: &mut BitReader) -> Result<(u64, usize, bool), Reject> {
    let at = r.byte_pos();
    let b0 = r.u(8).oe(r)? as u8;
    let (n, mut v): (usize, u64) = if b0 & 0x80 == 0 {
        (1, b0 as u64)
    } else if b0 & 0xE0 == 0xC0 {
        (2, (b0 & 0x1F) as u64)
    } else if b0 & 0xF0 == 0xE0 {
        (3, (b0 & 0x0F) as u64)
    } else if b0 & 0xF8 == 0xF0 {
        (4, (b0 & 0x07) as u64)
    } else if b0 & 0xFC == 0xF8 {
        (5, (b0 & 0x03) as u64)
    } else if b0 & 0xFE == 0xFC {
        (6, (b0 & 0x01) as u64)
    } else if b0 == 0xFE {
        (7, 0)
    } else {
        return rej("coded-number", at, format!("lead byte {b0:02x}"));
    };
    for _ in 1..n {
        let b = r.u(8).oe(r)? as u8;
        if b & 0xC0 != 0x80 {
            return rej("coded-number", at, format!("continuation byte {b:02x}"));
        }
        v = (v << 6) | (b & 0x3F) as u64;
    }
    let min_bytes = match v {
        0..=0x7F => 1,
        0x80..=0x7FF => 2,
        0x800..=0xFFFF => 3,
        0x1_0000..=0x1F_FFFF => 4,
        0x20_0000..=0x3FF_FFFF => 5,
        0x400_0000..=0x7FFF_FFFF => 6,
        _ => 7,
    };
    Ok((v, n, n == min_bytes))
}

/// Decodes one frame at `off`.  `si` = Some(..) for file mode (STREAMINFO
/// referencing codes legal and header must agree with STREAMINFO).
pub fn decode_frame(
    data: &[u8],
    off: usize,
    si: Option<&StreamInfo>,
    rules: &Rules,
) -> Result<(FrameInfo, Vec<Vec<i32>>), Reject> {
    let mut r = BitReader::at(data, off);
    let sync = r.u(15).oe(&r)?;
    if sync != 0b111111111111100 {
        return rej("sync", off, format!("{sync:015b}"));
    }
    let variable = r.bit().oe(&r)? == 1;
    let bs_code = r.u(4).oe(&r)? as u8;
    let rate_code = r.u(4).oe(&r)? as u8;
    let ch_code = r.u(4).oe(&r)? as u8;
    let bps_code = r.u(3).oe(&r)? as u8;
    let reserved_bit = r.bit().oe(&r)? == 1;
    if bs_code == 0 {
        return rej("blocksize-code-reserved", off, "");
    }
    if rate_code == 15 {
        return rej("rate-code-forbidden", off, "");
    }
    if ch_code > 10 {
        return rej("channel-code-reserved", off, format!("{ch_code}"));
    }
    if bps_code == 3 {
        return rej("bps-code-reserved", off, "");
    }
    if reserved_bit && rules.reserved_bit_zero {
        return rej("reserved-header-bit", off, "");
    }
    let (number, number_bytes, number_minimal) = coded_number(&mut r)?;
    if !variable && number >= (1u64 << 31) {
        return rej("coded-number", off, format!("frame number {number} exceeds 31 bits"));
    }
    if !number_minimal && rules.minimal_numbers {
        return rej("coded-number-overlong", off, format!("{number} in {number_bytes} bytes"));
    }
    let block_size: u32 = match bs_code {
        1 => 192,
        2..=5 => 144 << bs_code,
        6 => r.u(8).oe(&r)? as u32 + 1,
        7 => r.u(16).oe(&r)? as u32 + 1,
        8..=15 => 1 << bs_code,
        _ => unreachable!(),
    };
    if block_size > 65535 {
        return rej("blocksize-65536", off, "");
    }
    let rate: u32 = match rate_code {
        0 => match si {
            Some(si) => si.rate,
            None => return rej("rate-streaminfo-in-raw", off, ""),
        },
        1 => 88200,
        2 => 176400,
        3 => 192000,
        4 => 8000,
        5 => 16000,
        6 => 22050,
        7 => 24000,
        8 => 32000,
        9 => 44100,
        10 => 48000,
        11 => 96000,
        12 => r.u(8).oe(&r)? as u32 * 1000,
        13 => r.u(16).oe(&r)? as u32,
        14 => r.u(16).oe(&r)? as u32 * 10,
        _ => unreachable!(),
    };
    let bps: u8 = match bps_code {
        0 => match si {
            Some(si) => si.bps,
            None => return rej("bps-streaminfo-in-raw", off, ""),
        },
        1 => 8,
        2 => 12,
        4 => 16,
        5 => 20,
        6 => 24,
        7 => 32,
        _ => unreachable!(),
    };
    let channels: u8 = if ch_code < 8 { ch_code + 1 } else { 2 };
    let header_end = r.byte_pos();
    let crc8_read = r.u(8).oe(&r)? as u8;
    let crc8_calc = crc8(&data[off..header_end]);
    if crc8_read != crc8_calc {
        return rej("crc8", off, format!("read {crc8_read:02x} calc {crc8_calc:02x}"));
    }
    let header_len = r.byte_pos() - off;
    if let Some(si) = si {
        if rate != si.rate {
            return rej("rate-mismatch", off, format!("{rate} vs {}", si.rate));
        }
        if channels != si.channels {
            return rej("channels-mismatch", off, format!("{channels} vs {}", si.channels));
        }
        if bps != si.bps {
            return rej("bps-mismatch", off, format!("{bps} vs {}", si.bps));
        }
        if block_size > si.max_block as u32 {
            return rej("blocksize-gt-max", off, format!("{block_size} > {}", si.max_block));
        }
    }
    let bs = block_size as usize;
    let mut subframes = Vec::with_capacity(channels as usize);
    let mut chans: Vec<Vec<i64>> = Vec::with_capacity(channels as usize);
    for c in 0..channels as usize {
        let side = match ch_code {
            8 => c == 1,
            9 => c == 0,
            10 => c == 1,
            _ => false,
        };
        let sbps = bps as u32 + side as u32;
        let (sf, v) = decode_subframe(&mut r, bs, sbps, rules)?;
        subframes.push(sf);
        chans.push(v);
    }
    let padding_bits = ((8 - r.bit_pos() % 8) % 8) as u8;
    let pad = r.align().oe(&r)?;
    if pad != 0 && rules.zero_padding {
        return rej("padding-nonzero", r.byte_pos(), "");
    }
    let body_end = r.byte_pos();
    let crc16_read = r.u(16).oe(&r)? as u16;
    let crc16_calc = crc16(&data[off..body_end]);
    if crc16_read != crc16_calc {
        return rej("crc16", off, format!("read {crc16_read:04x} calc {crc16_calc:04x}"));
    }
    // undo stereo decorrelation
    match ch_code {
        8 => {
            for i in 0..bs {
                chans[1][i] = chans[0][i] - chans[1][i];
            }
        }
        9 => {
            for i in 0..bs {
                chans[0][i] += chans[1][i];
            }
        }
        10 => {
            for i in 0..bs {
                let side = chans[1][i];
                let mid = (chans[0][i] << 1) | (side & 1);
                chans[0][i] = (mid + side) >> 1;
                chans[1][i] = (mid - side) >> 1;
            }
        }
        _ => {}
    }
    let mut out = Vec::with_capacity(chans.len());
    for (c, ch) in chans.iter().enumerate() {
        let mut v = Vec::with_capacity(bs);
        for s in ch {
            if rules.sample_fit && !fits(*s, bps as u32) {
                return rej("sample-fit", off, format!("channel {c} sample {s} does not fit {bps} bits"));
            }
            v.push(*s as i32);
        }
        out.push(v);
    }
    let info = FrameInfo {
        offset: off,
        len: r.byte_pos() - off,
        variable,
        number,
        number_bytes,
        number_minimal,
        first_sample: 0,
        block_size,
        bs_code,
        rate_code,
        rate,
        ch_code,
        channels,
        bps_code,
        bps,
        reserved_bit,
        header_len,
        padding_bits,
        padding_zero: pad == 0,
        subframes,
    };
    Ok((info, out))
}

/// Decodes a complete file.
pub fn decode_file(data: &[u8], rules: &Rules) -> Result<Decoded, Reject> {
    let (info, blocks, seektable, frames_start) = walk_metadata(data, rules.metadata_strict)?;
    let nch = info.channels as usize;
    let mut pcm: Vec<Vec<i32>> = vec![Vec::new(); nch];
    let mut frames = Vec::new();
    let mut off = frames_start;
    let mut decoded: u64 = 0;
    let mut variable: Option<bool> = None;
    while off < data.len() {
        if info.total != 0 && rules.total && decoded >= info.total {
            break;
        }
        let fidx = frames.len();
        let (mut fi, ch) = decode_frame(data, off, Some(&info), rules).map_err(|mut e| {
            e.frame = Some(fidx);
            e
        })?;
        let tag = |mut e: Reject| {
            e.frame = Some(fidx);
            e
        };
        match variable {
            None => variable = Some(fi.variable),
            Some(v) => {
                if v != fi.variable && rules.consecutive {
                    return rej("blocking-strategy-changed", off, "").map_err(tag);
                }
            }
        }
        fi.first_sample = decoded;
        if rules.consecutive {
            if fi.variable {
                if fi.number != decoded {
                    return rej("sample-number", off, format!("coded {} expected {decoded}", fi.number)).map_err(tag);
                }
            } else if fi.number != fidx as u64 {
                return rej("frame-number", off, format!("coded {} expected {fidx}", fi.number)).map_err(tag);
            }
        }
        if let Some(prev) = frames.last() {
            let prev: &FrameInfo = prev;
            if rules.short_block_last && prev.block_size <= 14 {
                return rej("short-block-not-last", prev.offset, format!("{}", prev.block_size)).map_err(tag);
            }
            if rules.blocksize_consistency {
                if prev.block_size < info.min_block as u32 {
                    return rej("blocksize-lt-min", prev.offset, format!("{} < {}", prev.block_size, info.min_block)).map_err(tag);
                }
                if !prev.variable && info.min_block == info.max_block && prev.block_size != info.max_block as u32 {
                    return rej("blocksize-nonfinal", prev.offset, format!("{} != {}", prev.block_size, info.max_block)).map_err(tag);
                }
            }
        }
        if rules.frame_sizes {
            if info.max_frame != 0 && fi.len as u32 > info.max_frame {
                return rej("frame-size-gt-max", off, format!("{} > {}", fi.len, info.max_frame)).map_err(tag);
            }
            if info.min_frame != 0 && (fi.len as u32) < info.min_frame {
                return rej("frame-size-lt-min", off, format!("{} < {}", fi.len, info.min_frame)).map_err(tag);
            }
        }
        decoded += fi.block_size as u64;
        if info.total != 0 && rules.total && decoded > info.total {
            return rej("too-many-samples", off, format!("{decoded} > {}", info.total)).map_err(tag);
        }
        for (c, v) in ch.into_iter().enumerate() {
            pcm[c].extend_from_slice(&v);
        }
        off += fi.len;
        frames.push(fi);
    }
    if rules.total && info.total != 0 && decoded != info.total {
        return rej("total-samples", off, format!("decoded {decoded} streaminfo {}", info.total));
    }
    if rules.no_trailing && off != data.len() {
        return rej("trailing-data", off, format!("{} bytes after last frame", data.len() - off));
    }
    if rules.md5 && info.md5 != [0u8; 16] {
        let got = crate::md5::md5_of_pcm(&interleave(&pcm), info.bps as u32);
        if got != info.md5 {
            return rej("md5", 0, format!("decoded {} stored {}", crate::md5::hex(&got), crate::md5::hex(&info.md5)));
        }
    }
    Ok(Decoded { info, blocks, seektable, frames_start, frames, pcm, end: off })
}

/// Decodes a raw concatenation of frames (no metadata), each from its own header.
pub fn decode_raw(data: &[u8], rules: &Rules) -> Result<Vec<(FrameInfo, Vec<Vec<i32>>)>, Reject> {
    let mut off = 0;
    let mut out = Vec::new();
    while off < data.len() {
        let idx = out.len();
        let (fi, ch) = decode_frame(data, off, None, rules).map_err(|mut e| {
            e.frame = Some(idx);
            e
        })?;
        off += fi.len;
        out.push((fi, ch));
    }
    Ok(out)
}
