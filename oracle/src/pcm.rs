//! PCM signal generators.  Every sample is inside the declared bit depth.

use crate::rng::Rng;

#[derive(Debug, Clone, Copy, PartialEq, Eq, Hash)]
pub enum Signal {
    Silence,
    Constant,
    FullScaleSquare,
    AlternatingExtremes,
    NoiseFull,
    NoiseLow,
    Sine,
    Sweep,
    Impulses,
    Wasted,
    StereoNear,
    StereoAnti,
    StereoRightNoise,
    RiceBreaker,
    RampOverflow,
    PositionCoded,
    SmoothRandomWalk,
    Mixed,
    QuietPeriodic,
    QuietTonal,
    /// very slow, loud sine (period thousands of samples): ideal predictors approach binomial
    /// coefficients, which are large against the 7-13 bit coefficient precision of small blocks
    SlowSine,
    /// low-degree polynomial in the sample index, scaled to the bit depth
    Polynomial,
    /// the impulse response of an all-pole filter with a 12-32 fold pole at 0.5-0.85, restarted every
    /// `resonant_period` samples: with a block size equal to the period the ideal predictor has
    /// coefficients in the hundreds, beyond what the 7-8 bit precision of blocks <= 384 samples can
    /// hold at shift 0 (the encoder's negative-shift quantisation branch)
    Resonant,
}

pub const RESONANT_PERIODS: [usize; 6] = [96, 150, 192, 256, 300, 384];

/// the period `Signal::Resonant` uses when generated from `Rng::new(seed)`
pub fn resonant_period(seed: u64) -> usize {
    *Rng::new(seed).pick(&RESONANT_PERIODS)
}

pub const ALL_SIGNALS: [Signal; 23] = [
    Signal::Silence,
    Signal::Constant,
    Signal::FullScaleSquare,
    Signal::AlternatingExtremes,
    Signal::NoiseFull,
    Signal::NoiseLow,
    Signal::Sine,
    Signal::Sweep,
    Signal::Impulses,
    Signal::Wasted,
    Signal::StereoNear,
    Signal::StereoAnti,
    Signal::StereoRightNoise,
    Signal::RiceBreaker,
    Signal::RampOverflow,
    Signal::PositionCoded,
    Signal::SmoothRandomWalk,
    Signal::Mixed,
    Signal::QuietPeriodic,
    Signal::QuietTonal,
    Signal::SlowSine,
    Signal::Polynomial,
    Signal::Resonant,
];

pub fn lo(bps: u32) -> i64 {
    -(1i64 << (bps - 1))
}
pub fn hi(bps: u32) -> i64 {
    (1i64 << (bps - 1)) - 1
}
pub fn clip(v: i64, bps: u32) -> i32 {
    v.clamp(lo(bps), hi(bps)) as i32
}

fn hash3(a: u64, b: u64, c: u64) -> u64 {
    let mut x = a.wrapping_mul(0x9E3779B97F4A7C15) ^ b.wrapping_mul(0xC2B2AE3D27D4EB4F) ^ c.wrapping_mul(0x165667B19E3779F9);
    x ^= x >> 32;
    x = x.wrapping_mul(0xD6E8FEB86659FD93);
    x ^= x >> 29;
    x = x.wrapping_mul(0xA0761D6478BD642F);
    x ^ (x >> 32)
}

/// value that (up to the bit depth) identifies (pcm frame, channel)
pub fn position_value(frame: u64, ch: usize, bps: u32, salt: u64) -> i32 {
    let h = hash3(frame, ch as u64, salt);
    let span = 1u64 << bps;
    ((h % span) as i64 + lo(bps)) as i32
}

/// Generates `frames` PCM frames, interleaved.
pub fn generate(sig: Signal, channels: usize, bps: u32, frames: usize, rng: &mut Rng) -> Vec<i32> {
    let mut out = vec![0i32; frames * channels];
    let (l, h) = (lo(bps), hi(bps));
    let amp = h as f64;
    match sig {
        Signal::Silence => {}
        Signal::Constant => {
            let vals: Vec<i64> = (0..channels).map(|_| rng.range(l, h)).collect();
            for i in 0..frames {
                for c in 0..channels {
                    out[i * channels + c] = vals[c] as i32;
                }
            }
        }
        Signal::FullScaleSquare => {
            let period = rng.usize(1, 40);
            for i in 0..frames {
                for c in 0..channels {
                    out[i * channels + c] = if ((i + c) / period) % 2 == 0 { h as i32 } else { l as i32 };
                }
            }
        }
        Signal::AlternatingExtremes => {
            for i in 0..frames {
                for c in 0..channels {
                    out[i * channels + c] = if (i + c) % 2 == 0 { h as i32 } else { l as i32 };
                }
            }
        }
        Signal::NoiseFull => {
            for s in out.iter_mut() {
                *s = rng.range(l, h) as i32;
            }
        }
        Signal::NoiseLow => {
            let bits = rng.usize(1, bps.max(2) as usize - 1) as u32;
            let (a, b) = (lo(bits.max(1)), hi(bits.max(1)));
            for s in out.iter_mut() {
                *s = rng.range(a.max(l), b.min(h)) as i32;
            }
        }
        Signal::Sine => {
            let f: Vec<f64> = (0..channels).map(|_| 0.001 + rng.f64() * 0.2).collect();
            let a = amp * (0.1 + 0.9 * rng.f64());
            for i in 0..frames {
                for c in 0..channels {
                    out[i * channels + c] = clip((a * (i as f64 * f[c] * std::f64::consts::TAU).sin()).round() as i64, bps);
                }
            }
        }
        Signal::Sweep => {
            let a = amp * (0.2 + 0.8 * rng.f64());
            let k = rng.f64() * 0.5 / (frames.max(1) as f64);
            for i in 0..frames {
                let ph = (i as f64) * (i as f64) * k * std::f64::consts::TAU * 0.5;
                for c in 0..channels {
                    out[i * channels + c] = clip((a * (ph + c as f64).sin()).round() as i64, bps);
                }
            }
        }
        Signal::Impulses => {
            let gap = rng.usize(2, 200);
            for i in 0..frames {
                for c in 0..channels {
                    if (i + 3 * c) % gap == 0 {
                        out[i * channels + c] = if rng.chance(1, 2) { h as i32 } else { l as i32 };
                    }
                }
            }
        }
        Signal::Wasted => {
            let ks: Vec<u32> = (0..channels)
                .map(|_| if bps < 2 { 0 } else { rng.usize(1, (bps - 1) as usize) as u32 })
                .collect();
            for i in 0..frames {
                for c in 0..channels {
                    let k = ks[c];
                    let v = rng.range(l, h);
                    out[i * channels + c] = ((v >> k) << k) as i32;
                }
            }
        }
        Signal::StereoNear | Signal::StereoAnti | Signal::StereoRightNoise => {
            let f = 0.001 + rng.f64() * 0.05;
            let a = amp * (0.3 + 0.7 * rng.f64());
            let nb = rng.usize(1, (bps as usize).min(6)) as u32;
            for i in 0..frames {
                let base = (a * (i as f64 * f * std::f64::consts::TAU).sin()).round() as i64;
                for c in 0..channels {
                    let n = rng.range(lo(nb), hi(nb));
                    let v = match (sig, c % 2) {
                        (_, 0) => base,
                        (Signal::StereoNear, _) => base + n,
                        (Signal::StereoAnti, _) => -base + n,
                        (_, _) => base / 2 + n * 4,
                    };
                    out[i * channels + c] = clip(v, bps);
                }
            }
        }
        Signal::RiceBreaker => {
            let rare = rng.usize(5, 300);
            for s in out.iter_mut() {
                *s = if rng.below(rare as u64) == 0 { rng.range(l, h) as i32 } else { clip(rng.range(-1, 1), bps) };
            }
        }
        Signal::RampOverflow => {
            // steep alternating ramps: high-order FIXED differences overflow at 32 bps
            let step = ((h - l) / rng.range(2, 9)).max(1);
            for c in 0..channels {
                let mut v = l;
                let mut dir = 1i64;
                for i in 0..frames {
                    out[i * channels + c] = clip(v, bps);
                    v += dir * step;
                    if v > h || v < l {
                        dir = -dir;
                        v = v.clamp(l, h);
                    }
                }
            }
        }
        Signal::PositionCoded => {
            let salt = rng.next();
            for i in 0..frames {
                for c in 0..channels {
                    out[i * channels + c] = position_value(i as u64, c, bps, salt);
                }
            }
        }
        Signal::SmoothRandomWalk => {
            let stepbits = rng.usize(1, (bps as usize).clamp(2, 12)) as u32;
            for c in 0..channels {
                let mut v = rng.range(l / 2, h / 2);
                let mut vel = 0i64;
                for i in 0..frames {
                    vel += rng.range(lo(stepbits), hi(stepbits));
                    vel = vel.clamp(l / 16, h / 16);
                    v += vel;
                    if v > h || v < l {
                        vel = -vel;
                        v = v.clamp(l, h);
                    }
                    out[i * channels + c] = v as i32;
                }
            }
        }
        Signal::QuietPeriodic => {
            // a short low-amplitude pattern repeated exactly: FIXED predictors do well, LPC does better
            let period = rng.usize(3, 12);
            let abits = if rng.chance(2, 3) { 2 } else { rng.usize(2, (bps as usize).clamp(3, 9) - 1) as u32 }.min(bps.max(2) - 1).max(1);
            let pats: Vec<Vec<i64>> = (0..channels).map(|_| (0..period).map(|_| rng.range(lo(abits).max(l), hi(abits).min(h))).collect()).collect();
            for i in 0..frames {
                for c in 0..channels {
                    out[i * channels + c] = pats[c][i % period] as i32;
                }
            }
        }
        Signal::QuietTonal => {
            // sum of two quiet sines at high bit depth
            let a = (amp / 4096.0).max(2.0).min(amp);
            let (f1, f2) = (0.01 + rng.f64() * 0.1, 0.002 + rng.f64() * 0.3);
            for i in 0..frames {
                for c in 0..channels {
                    let v = a * ((i as f64 * f1 * std::f64::consts::TAU).sin() + 0.5 * (i as f64 * f2 * std::f64::consts::TAU + c as f64).sin());
                    out[i * channels + c] = clip(v.round() as i64, bps);
                }
            }
        }
        Signal::SlowSine => {
            let period = 2000.0 + rng.f64() * 60000.0;
            let a = amp * (0.5 + 0.49 * rng.f64());
            let ph = rng.f64() * std::f64::consts::TAU;
            for i in 0..frames {
                for c in 0..channels {
                    let v = a * (i as f64 / period * std::f64::consts::TAU + ph + 0.3 * c as f64).sin();
                    out[i * channels + c] = clip(v.round() as i64, bps);
                }
            }
        }
        Signal::Polynomial => {
            let degree = rng.usize(2, 7) as i32;
            let n = frames.max(2) as f64;
            let roots: Vec<f64> = (0..degree).map(|_| rng.f64() * 1.2 - 0.1).collect();
            // p(x) = prod (x - r_k) on x in [0,1], normalised to 0.9 of full scale
            let p = |x: f64| roots.iter().fold(1.0, |acc, r| acc * (x - r));
            let peak = (0..frames).map(|i| p(i as f64 / n).abs()).fold(1e-12, f64::max);
            for i in 0..frames {
                for c in 0..channels {
                    let v = 0.9 * amp * p(i as f64 / n) / peak * if c % 2 == 1 { -1.0 } else { 1.0 };
                    out[i * channels + c] = clip(v.round() as i64, bps);
                }
            }
        }
        Signal::Resonant => {
            let period = *rng.pick(&RESONANT_PERIODS);
            let p = *rng.pick(&[12usize, 14, 16, 20, 24, 32]);
            let r = *rng.pick(&[0.5f64, 0.6, 0.7, 0.75, 0.8, 0.85]);
            let noise = *rng.pick(&[1e-9f64, 1e-6, 1e-3]);
            // a(z) = (1 - r z^-1)^p
            let mut a = vec![1.0f64];
            for _ in 0..p {
                let mut b = vec![0.0; a.len() + 1];
                for (i, v) in a.iter().enumerate() {
                    b[i] += v;
                    b[i + 1] -= r * v;
                }
                a = b;
            }
            let mut x = vec![0.0f64; period];
            for i in 0..period {
                let mut v = (rng.f64() - 0.5) * noise + if i == 0 { 1.0 } else { 0.0 };
                for k in 1..=p.min(i) {
                    v -= a[k] * x[i - k];
                }
                x[i] = v;
            }
            let peak = x.iter().fold(1e-300f64, |m, v| m.max(v.abs()));
            for i in 0..frames {
                for c in 0..channels {
                    let v = 0.9 * amp * x[i % period] / peak * if c % 2 == 1 { -0.5 } else { 1.0 };
                    out[i * channels + c] = clip(v.round() as i64, bps);
                }
            }
        }
        Signal::Mixed => {
            // piecewise: a different signal every few hundred frames
            let mut pos = 0;
            while pos < frames {
                let seg = rng.usize(1, 700).min(frames - pos);
                let which = *rng.pick(&ALL_SIGNALS[..17]);
                let part = generate(which, channels, bps, seg, rng);
                out[pos * channels..(pos + seg) * channels].copy_from_slice(&part);
                pos += seg;
            }
        }
    }
    out
}

/// little-endian / big-endian serialisation at ceil(bps/8) bytes per sample
pub fn to_bytes(data: &[i32], bps: u32, big_endian: bool) -> Vec<u8> {
    let n = ((bps + 7) / 8) as usize;
    let mut out = Vec::with_capacity(data.len() * n);
    for s in data {
        let le = s.to_le_bytes();
        if big_endian {
            for k in (0..n).rev() {
                out.push(le[k]);
            }
        } else {
            out.extend_from_slice(&le[..n]);
        }
    }
    out
}

pub fn from_bytes(bytes: &[u8], bps: u32, big_endian: bool) -> Vec<i32> {
    let n = ((bps + 7) / 8) as usize;
    bytes
        .chunks_exact(n)
        .map(|c| {
            let mut v: i64 = 0;
            for k in 0..n {
                let b = if big_endian { c[k] } else { c[n - 1 - k] };
                v = (v << 8) | b as i64;
            }
            let shift = 64 - 8 * n as u32;
            ((v << shift) >> shift) as i32
        })
        .collect()
}
