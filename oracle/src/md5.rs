//! MD5 (RFC 1321), written for this harness.

const S: [u32; 64] = [
    7, 12, 17, 22, 7, 12, 17, 22, 7, 12, 17, 22, 7, 12, 17, 22, 5, 9, 14, 20, 5, 9, 14, 20, 5, 9,
    14, 20, 5, 9, 14, 20, 4, 11, 16, 23, 4, 11, 16, 23, 4, 11, 16, 23, 4, 11, 16, 23, 6, 10, 15,
    21, 6, 10, 15, 21, 6, 10, 15, 21, 6, 10, 15, 21,
];

fn k(i: usize) -> u32 {
    // floor(2^32 * abs(sin(i + 1)))
    (((i as f64) + 1.0).sin().abs() * 4294967296.0) as u32
}

pub struct Md5 {
    state: [u32; 4],
    buf: Vec<u8>,
    len: u64,
    ktab: [u32; 64],
}

impl Default for Md5 {
    fn default() -> Self {
        Self::new()
    }
}

impl Md5 {
    pub fn new() -> Self {
        let mut ktab = [0u32; 64];
        for (i, slot) in ktab.iter_mut().enumerate() {
            *slot = k(i);
        }
        Self {
            state: [0x67452301, 0xefcdab89, 0x98badcfe, 0x10325476],
            buf: Vec::with_capacity(64),
            len: 0,
            ktab,
        }
    }

    fn block(&mut self, chunk: &[u8]) {
        let mut m = [0u32; 16];
        for (i, w) in m.iter_mut().enumerate() {
            *w = u32::from_le_bytes([chunk[4 * i], chunk[4 * i + 1], chunk[4 * i + 2], chunk[4 * i + 3]]);
        }
        let [mut a, mut b, mut c, mut d] = self.state;
        for i in 0..64 {
            let (f, g) = match i / 16 {
                0 => ((b & c) | (!b & d), i),
                1 => ((d & b) | (!d & c), (5 * i + 1) % 16),
                2 => (b ^ c ^ d, (3 * i + 5) % 16),
                _ => (c ^ (b | !d), (7 * i) % 16),
            };
            let f2 = f.wrapping_add(a).wrapping_add(self.ktab[i]).wrapping_add(m[g]);
            a = d;
            d = c;
            c = b;
            b = b.wrapping_add(f2.rotate_left(S[i]));
        }
        self.state[0] = self.state[0].wrapping_add(a);
        self.state[1] = self.state[1].wrapping_add(b);
        self.state[2] = self.state[2].wrapping_add(c);
        self.state[3] = self.state[3].wrapping_add(d);
    }

    pub fn update(&mut self, mut data: &[u8]) {
        self.len = self.len.wrapping_add(data.len() as u64);
        if !self.buf.is_empty() {
            let need = 64 - self.buf.len();
            let take = need.min(data.len());
            self.buf.extend_from_slice(&data[..take]);
            data = &data[take..];
            if self.buf.len() == 64 {
                let b = std::mem::take(&mut self.buf);
                self.block(&b);
                self.buf = b;
                self.buf.clear();
            }
        }
        while data.len() >= 64 {
            let (h, t) = data.split_at(64);
            self.block(h);
            data = t;
        }
        self.buf.extend_from_slice(data);
    }

    pub fn finish(mut self) -> [u8; 16] {
        let bitlen = self.len.wrapping_mul(8);
        let mut pad = vec![0x80u8];
        while (self.buf.len() + pad.len()) % 64 != 56 {
            pad.push(0);
        }
        pad.extend_from_slice(&bitlen.to_le_bytes());
        let saved = self.len;
        self.update(&pad);
        self.len = saved;
        debug_assert!(self.buf.is_empty());
        let mut out = [0u8; 16];
        for (i, s) in self.state.iter().enumerate() {
            out[4 * i..4 * i + 4].copy_from_slice(&s.to_le_bytes());
        }
        out
    }
}

pub fn md5(data: &[u8]) -> [u8; 16] {
    let mut m = Md5::new();
    m.update(data);
    m.finish()
}

/// MD5 of interleaved samples serialised little-endian, sign-extended to ceil(bps/8) bytes.
pub fn md5_of_pcm(interleaved: &[i32], bps: u32) -> [u8; 16] {
    let bytes = ((bps + 7) / 8) as usize;
    let mut m = Md5::new();
    let mut buf = Vec::with_capacity(4096 * bytes);
    for chunk in interleaved.chunks(4096) {
        buf.clear();
        for s in chunk {
            buf.extend_from_slice(&s.to_le_bytes()[..bytes]);
        }
        m.update(&buf);
    }
    m.finish()
}

pub fn hex(d: &[u8]) -> String {
    d.iter().map(|b| format!("{b:02x}")).collect()
}

#[cfg(test)]
mod t {
    use super::*;
    #[test]
    fn rfc1321() {
        assert_eq!(hex(&md5(b"")), "d41d8cd98f00b204e9800998ecf8427e");
        assert_eq!(hex(&md5(b"a")), "0cc175b9c0f1b6a831c399e269772661");
        assert_eq!(hex(&md5(b"abc")), "900150983cd24fb0d6963f7d28e17f72");
        assert_eq!(hex(&md5(b"message digest")), "f96b697d7cb7938d525a2f31aaf161d0");
        assert_eq!(
            hex(&md5(b"12345678901234567890123456789012345678901234567890123456789012345678901234567890")),
            "57edf4a22be3c955ac49da2e2107b67a"
        );
        let big: Vec<u8> = (0..100000u32).map(|i| (i * 31 % 251) as u8).collect();
        let mut m = Md5::new();
        for c in big.chunks(977) {
            m.update(c);
        }
        assert_eq!(m.finish(), md5(&big));
    }
}
