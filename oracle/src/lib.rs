//! `flacref` — independent oracle for the flac-codec verification harness.
//!
//! Everything in this crate is written from RFC 9639 / RFC 1321 for the
//! harness.  It has no dependency on flac-codec, bitstream-io, arrayvec or md5
//! (see Cargo.toml: no dependencies at all).

pub mod bits;
pub mod crc;
pub mod dec;
pub mod sgen;
pub mod md5;
pub mod meta;
pub mod pcm;
pub mod rng;
pub mod cue;
