//! Structure-aware FLAC stream generator.
//!
//! Input: target PCM + a plan that picks every syntactic alternative of the
//! frame grammar.  Residuals are *derived* from the target PCM with RFC 9639
//! arithmetic, so a stream built from a plan without malform knobs is valid by
//! construction (and is additionally confirmed by `dec`).  Where a choice is
//! impossible for the data the generator falls back and records it.
//!
//! Malform knobs push one field to an illegal/extreme value; CRC-8/CRC-16 are
//! recomputed afterwards so the damage reaches the parser.

use crate::bits::BitWriter;
use crate::crc::{crc16, crc8};
use crate::dec::{SeekPoint, StreamInfo, SubKind, FIXED_COEFS};
use crate::rng::Rng;

#[derive(Debug, Clone, Copy, PartialEq, Eq, Hash)]
pub enum BsCoding {
    Auto,
    Force8,
    Force16,
}

#[derive(Debug, Clone, Copy, PartialEq, Eq, Hash)]
pub enum RateCoding {
    Auto,
    Streaminfo,
    Table,
    KHz,
    Hz,
    DaHz,
}

#[derive(Debug, Clone, Copy, PartialEq, Eq, Hash)]
pub enum BpsCoding {
    Auto,
    Streaminfo,
}

#[derive(Debug, Clone, Copy, PartialEq, Eq, Hash)]
pub enum PartChoice {
    /// smallest-cost Rice parameter
    Auto,
    /// this Rice parameter (raised if the unary part would get absurdly long)
    Rice(u8),
    /// escape with minimal width + extra bits (clamped to 31)
    Escape(u8),
}

#[derive(Debug, Clone, PartialEq, Eq)]
pub struct SubPlan {
    pub kind: SubKind,
    /// None: use all common trailing zero bits; Some(k): use min(k, available)
    pub wasted: Option<u32>,
    pub precision: u8,
    pub shift: u8,
    pub coefs: Vec<i32>,
    pub method: u8,
    pub part_order: u8,
    pub parts: Vec<PartChoice>,
}

impl SubPlan {
    pub fn verbatim() -> Self {
        SubPlan { kind: SubKind::Verbatim, wasted: Some(0), precision: 0, shift: 0, coefs: vec![], method: 0, part_order: 0, parts: vec![] }
    }
    pub fn fixed(order: u8) -> Self {
        SubPlan { kind: SubKind::Fixed(order), wasted: Some(0), precision: 0, shift: 0, coefs: vec![], method: 0, part_order: 0, parts: vec![] }
    }
}

#[derive(Debug, Clone, Copy, PartialEq, Eq, Hash)]
pub enum Malform {
    BsCode0,
    RateCode15,
    ChCode(u8),
    BpsCode3,
    NumberLeadInvalid,
    NumberContInvalid,
    RateMismatch,
    ChannelsMismatch,
    BpsMismatch,
    Crc8Wrong,
    Crc16Wrong,
    SubPadBit(u8),
    SubReservedType(u8, u8),
    WastedGeBps(u8),
    Precision15(u8),
    NegativeShift(u8),
    Method(u8, u8),
    PartOrderNotDividing(u8),
    PartOrderTooLarge(u8),
    PartOrderHuge(u8),
    OrderGtBlock(u8),
    HugeUnary(u8, u32),
    /// cut the frame at this fraction (per mille) of its length; no CRC fix possible
    Truncate(u16),
    /// residual exactly i32::MIN through an escape partition
    ResidualMin(u8),
    /// LPC subframe with maximal coefficients, shift 0, maximal warm-up and large residuals: the
    /// predictor output grows by a factor of ~2^14 per sample (checksums stay valid)
    LpcBlowup(u8),
    /// LPC order 1, coefficient -2, shift 0, minimal warm-up, zero residuals: every sample is
    /// -2 x the previous one, so the values run through every power of two up to the type's
    /// most negative value exactly
    LpcDoubling(u8),
}

#[derive(Debug, Clone, PartialEq, Eq)]
pub struct FramePlan {
    pub block_size: u32,
    pub bs_coding: BsCoding,
    pub rate_coding: RateCoding,
    pub bps_coding: BpsCoding,
    /// 0 = independent, 8 = left/side, 9 = side/right, 10 = mid/side
    pub assignment: u8,
    pub subs: Vec<SubPlan>,
    pub number_extra_bytes: u8,
    pub reserved_bit: bool,
    pub pad_ones: bool,
    pub malform: Option<Malform>,
}

#[derive(Debug, Clone, Copy, PartialEq, Eq, Hash)]
pub enum Md5Mode {
    Correct,
    Wrong,
    Absent,
}

#[derive(Debug, Clone, PartialEq, Eq)]
pub enum SeekMode {
    None,
    Empty,
    EveryFrame,
    Every(usize),
    /// every n-th frame + k trailing placeholders
    WithPlaceholders(usize, usize),
    OnlyPlaceholders(usize),
}

#[derive(Debug, Clone, PartialEq, Eq)]
pub struct StreamParams {
    pub channels: u8,
    pub bps: u8,
    pub rate: u32,
    pub variable: bool,
    pub total_known: bool,
    pub md5: Md5Mode,
    pub seek: SeekMode,
    /// first coded number (frame number, or sample number when variable)
    pub start_number: u64,
    /// raw extra metadata blocks (type, body) placed after STREAMINFO/SEEKTABLE
    pub extra_blocks: Vec<(u8, Vec<u8>)>,
    /// STREAMINFO min/max block override (None: computed from the frames)
    pub min_max_block: Option<(u16, u16)>,
    /// write true min/max frame sizes (else 0 = unknown)
    pub frame_sizes: bool,
}

impl StreamParams {
    pub fn simple(channels: u8, bps: u8, rate: u32) -> Self {
        StreamParams {
            channels,
            bps,
            rate,
            variable: false,
            total_known: true,
            md5: Md5Mode::Correct,
            seek: SeekMode::None,
            start_number: 0,
            extra_blocks: vec![],
            min_max_block: None,
            frame_sizes: true,
        }
    }
}

#[derive(Debug, Clone, Default)]
pub struct GenNotes {
    pub fallbacks: Vec<String>,
}

#[derive(Debug, Clone)]
pub struct GenFrame {
    pub offset: usize,
    pub len: usize,
    pub first_sample: u64,
    pub block_size: u32,
    pub malformed: bool,
}

#[derive(Debug, Clone)]
pub struct GenStream {
    pub bytes: Vec<u8>,
    pub frames_start: usize,
    pub frames: Vec<GenFrame>,
    pub info: StreamInfo,
    pub seekpoints: Vec<SeekPoint>,
    pub notes: GenNotes,
}

pub fn table_block_code(bs: u32) -> Option<u8> {
    match bs {
        192 => Some(1),
        576 => Some(2),
        1152 => Some(3),
        2304 => Some(4),
        4608 => Some(5),
        256 => Some(8),
        512 => Some(9),
        1024 => Some(10),
        2048 => Some(11),
        4096 => Some(12),
        8192 => Some(13),
        16384 => Some(14),
        32768 => Some(15),
        _ => None,
    }
}

pub fn table_rate_code(rate: u32) -> Option<u8> {
    match rate {
        88200 => Some(1),
        176400 => Some(2),
        192000 => Some(3),
        8000 => Some(4),
        16000 => Some(5),
        22050 => Some(6),
        24000 => Some(7),
        32000 => Some(8),
        44100 => Some(9),
        48000 => Some(10),
        96000 => Some(11),
        _ => None,
    }
}

pub fn table_bps_code(bps: u8) -> Option<u8> {
    match bps {
        8 => Some(1),
        12 => Some(2),
        16 => Some(4),
        20 => Some(5),
        24 => Some(6),
        32 => Some(7),
        _ => None,
    }
}

/// which rate codings are legal for this rate
pub fn legal_rate_codings(rate: u32) -> Vec<RateCoding> {
    let mut v = vec![RateCoding::Streaminfo];
    if table_rate_code(rate).is_some() {
        v.push(RateCoding::Table);
    }
    if rate % 1000 == 0 && rate / 1000 <= 255 {
        v.push(RateCoding::KHz);
    }
    if rate <= 65535 {
        v.push(RateCoding::Hz);
    }
    if rate % 10 == 0 && rate / 10 <= 65535 {
        v.push(RateCoding::DaHz);
    }
    v
}

pub fn write_coded_number(w: &mut BitWriter, v: u64, extra_bytes: u8) {
    let min_bytes: usize = match v {
        0..=0x7F => 1,
        0x80..=0x7FF => 2,
        0x800..=0xFFFF => 3,
        0x1_0000..=0x1F_FFFF => 4,
        0x20_0000..=0x3FF_FFFF => 5,
        0x400_0000..=0x7FFF_FFFF => 6,
        _ => 7,
    };
    let n = (min_bytes + extra_bytes as usize).min(7);
    if n == 1 {
        w.u(8, v);
        return;
    }
    // lead byte: n ones, a zero, then (7 - n) payload bits
    let payload_bits = 6 * (n - 1);
    let lead_bits = 7 - n; // may be 0 for n == 7
    let lead_prefix: u64 = (0xFFu64 << (8 - n)) & 0xFF;
    let lead_payload = if lead_bits == 0 { 0 } else { (v >> payload_bits) & ((1 << lead_bits) - 1) };
    w.u(8, lead_prefix | lead_payload);
    for k in (0..n - 1).rev() {
        w.u(8, 0x80 | ((v >> (6 * k)) & 0x3F));
    }
}

fn fold(v: i64) -> u64 {
    if v >= 0 {
        (v as u64) << 1
    } else {
        (((-(v + 1)) as u64) << 1) | 1
    }
}

/// signed width needed for v (>= 1), 0 only if v == 0 handled by caller
fn signed_width(v: i64) -> u32 {
    if v >= 0 {
        65 - (v as u64).leading_zeros()
    } else {
        65 - (!(v as u64)).leading_zeros()
    }
}

const QMAX: u64 = 600;

fn rice_cost(res: &[i64], k: u32) -> u64 {
    res.iter().map(|r| (fold(*r) >> k) + 1 + k as u64).sum()
}

#[allow(dead_code)]
struct SubOut {
    fallback: Option<String>,
}

#[allow(clippy::too_many_arguments)]
fn emit_residual(
    w: &mut BitWriter,
    res: &[i64],
    block: usize,
    order: usize,
    plan: &SubPlan,
    mal: Option<Malform>,
    notes: &mut Vec<String>,
) {
    let mut method = plan.method & 1;
    let mut po = plan.part_order as usize;
    let mut malformed_layout = false;
    match mal {
        Some(Malform::ResidualMin(_)) => {
            // Rice2, one partition, parameter 30: folded value 2^32-1 == residual -2^31
            w.u(2, 1);
            w.u(4, 0);
            w.u(5, 30);
            for i in 0..res.len() {
                if i == 0 {
                    w.unary0(3);
                    w.u(30, (1 << 30) - 1);
                } else {
                    w.unary0(0);
                    w.u(30, 0);
                }
            }
            return;
        }
        Some(Malform::Method(_, m)) => {
            w.u(2, m as u64);
            // keep going as if method 0
            method = 0;
            emit_partitions(w, res, block, order, plan, method, legal_po(block, order, po), notes, None);
            return;
        }
        Some(Malform::PartOrderNotDividing(_)) => {
            // smallest order whose partition count does not divide the block
            po = (0..16).find(|p| block % (1usize << p) != 0).unwrap_or(15);
            malformed_layout = true;
        }
        Some(Malform::PartOrderTooLarge(_)) => {
            // block >> po < order (needs order >= 1)
            po = (0..16).find(|p| (block >> p) < order.max(1)).unwrap_or(15);
            malformed_layout = true;
        }
        Some(Malform::PartOrderHuge(_)) => {
            po = 15;
            malformed_layout = true;
        }
        _ => {}
    }
    if method == 0 && !malformed_layout {
        // 4-bit Rice parameters cannot hold residuals near 32 bits without absurd
        // unary runs, and the 5-bit escape width tops out at 31: switch method
        let maxfold = res.iter().map(|r| fold(*r)).max().unwrap_or(0);
        if (maxfold >> 14) > QMAX && res.iter().any(|r| signed_width(*r) > 31) {
            method = 1;
            notes.push("coding method 0 -> 1 (32-bit residuals)".into());
        }
    }
    w.u(2, method as u64);
    if !malformed_layout {
        po = legal_po(block, order, po);
        if po != plan.part_order as usize {
            notes.push(format!("partition order {} -> {po}", plan.part_order));
        }
    }
    emit_partitions(w, res, block, order, plan, method, po, notes, mal);
}

fn legal_po(block: usize, order: usize, want: usize) -> usize {
    let mut po = want.min(15);
    while po > 0 && (block % (1usize << po) != 0 || (block >> po) <= order) {
        po -= 1;
    }
    po
}

#[allow(clippy::too_many_arguments)]
fn emit_partitions(
    w: &mut BitWriter,
    res: &[i64],
    block: usize,
    order: usize,
    plan: &SubPlan,
    method: u8,
    po: usize,
    notes: &mut Vec<String>,
    mal: Option<Malform>,
) {
    w.u(4, po as u64);
    let pbits: u32 = if method == 0 { 4 } else { 5 };
    let kmax: u32 = (1 << pbits) - 2;
    let nparts = 1usize << po;
    let plen = block >> po;
    let mut idx = 0usize;
    // cap the amount of malformed output
    let nparts_emit = nparts.min(res.len() + 64);
    for p in 0..nparts_emit {
        let n = if p == 0 { plen.saturating_sub(order) } else { plen };
        let n = n.min(res.len() - idx.min(res.len()));
        let part = &res[idx.min(res.len())..(idx + n).min(res.len())];
        idx += n;
        let choice = plan.parts.get(p).copied().unwrap_or(PartChoice::Auto);
        if let Some(Malform::HugeUnary(_, zeros)) = mal {
            if p == 0 {
                w.u(pbits, 0);
                for _ in 0..zeros {
                    w.bit(0);
                }
                w.bit(1);
                continue;
            }
        }
        let maxfold = part.iter().map(|r| fold(*r)).max().unwrap_or(0);
        match choice {
            PartChoice::Escape(extra) => {
                let need = part.iter().map(|r| if *r == 0 { 0 } else { signed_width(*r) }).max().unwrap_or(0);
                let need = if part.iter().all(|r| *r == 0) { 0 } else { need.max(1) };
                if need <= 31 {
                    let width = (need + extra as u32).min(31);
                    w.u(pbits, (1 << pbits) - 1);
                    w.u(5, width as u64);
                    if width > 0 {
                        for r in part {
                            w.i(width, *r);
                        }
                    }
                    continue;
                }
                notes.push("escape impossible (needs 32 bits) -> rice".into());
            }
            PartChoice::Rice(_) | PartChoice::Auto => {}
        }
        let mut k = match choice {
            PartChoice::Rice(k) => (k as u32).min(kmax),
            _ => {
                // cheapest parameter
                let mut best = (u64::MAX, 0u32);
                for k in 0..=kmax {
                    let c = rice_cost(part, k);
                    if c < best.0 {
                        best = (c, k);
                    }
                }
                best.1
            }
        };
        while k < kmax && (maxfold >> k) > QMAX {
            k += 1;
        }
        if (maxfold >> k) > QMAX {
            let need = part.iter().map(|r| signed_width(*r)).max().unwrap_or(1);
            if need <= 31 {
                notes.push("rice -> escape (long quotient)".into());
                w.u(pbits, (1 << pbits) - 1);
                w.u(5, need as u64);
                for r in part {
                    w.i(need, *r);
                }
                continue;
            }
            notes.push("rice quotient very long".into());
        }
        w.u(pbits, k as u64);
        for r in part {
            let f = fold(*r);
            w.unary0(f >> k);
            w.u(k, f & ((1u64 << k) - 1));
        }
    }
}

/// Emits one subframe for `samples` (already decorrelated, at `bps` bits).
fn emit_subframe(
    w: &mut BitWriter,
    samples: &[i64],
    bps: u32,
    plan: &SubPlan,
    sub_index: u8,
    mal: Option<Malform>,
    notes: &mut Vec<String>,
) -> SubOut {
    let block = samples.len();
    let for_me = |m: Malform| -> bool {
        match m {
            Malform::SubPadBit(i)
            | Malform::SubReservedType(i, _)
            | Malform::WastedGeBps(i)
            | Malform::Precision15(i)
            | Malform::NegativeShift(i)
            | Malform::Method(i, _)
            | Malform::PartOrderNotDividing(i)
            | Malform::PartOrderTooLarge(i)
            | Malform::PartOrderHuge(i)
            | Malform::OrderGtBlock(i)
            | Malform::HugeUnary(i, _)
            | Malform::ResidualMin(i)
            | Malform::LpcBlowup(i)
            | Malform::LpcDoubling(i) => i == sub_index,
            _ => false,
        }
    };
    let mal = mal.filter(|m| for_me(*m));

    if let Some(Malform::LpcBlowup(_)) = mal {
        let order = 2usize.min(block.saturating_sub(1)).max(1);
        w.bit(0);
        w.u(6, 31 + order as u64);
        w.bit(0);
        let top = (1i64 << (bps - 1)) - 1;
        for k in 0..order.min(block) {
            w.i(bps, if k % 2 == 0 { top } else { -top - 1 });
        }
        w.u(4, 14); // precision 15
        w.i(5, 0); // shift 0
        for k in 0..order {
            w.i(15, if k == 0 { 16383 } else { -16384 });
        }
        w.u(2, 0);
        w.u(4, 0);
        w.u(4, 15);
        w.u(5, 31);
        for i in order..block {
            w.i(31, if i % 3 == 0 { (1 << 30) - 1 } else { -(1 << 30) });
        }
        return SubOut { fallback: None };
    }
    if let Some(Malform::LpcDoubling(_)) = mal {
        w.bit(0);
        w.u(6, 32); // LPC order 1
        w.bit(0);
        w.i(bps, -(1i64 << (bps - 1)));
        w.u(4, 2); // precision 3
        w.i(5, 0); // shift 0
        w.i(3, -2); // (a larger coefficient with a compensating shift would wrap in the product instead)
        w.u(2, 0);
        w.u(4, 0);
        w.u(4, 15); // escape
        w.u(5, 0); // width 0: all residuals zero
        return SubOut { fallback: None };
    }
    // wasted bits
    let all_zero = samples.iter().all(|s| *s == 0);
    let avail = if all_zero {
        bps - 1
    } else {
        samples.iter().map(|s| s.trailing_zeros()).min().unwrap_or(0).min(bps - 1)
    };
    let wasted = match plan.wasted {
        None => avail,
        Some(k) => k.min(avail),
    };
    let eb = bps - wasted;
    let shifted: Vec<i64> = samples.iter().map(|s| s >> wasted).collect();

    // choose a feasible kind
    let mut kind = plan.kind;
    let mut fallback = None;
    let mut coefs: Vec<i64> = vec![];
    let mut shift = plan.shift as u32;
    let mut precision = plan.precision.clamp(1, 15);
    let mut residual: Vec<i64> = vec![];
    loop {
        match kind {
            SubKind::Constant => {
                if shifted.iter().all(|s| *s == shifted[0]) {
                    break;
                }
                fallback = Some("constant -> verbatim".to_string());
                kind = SubKind::Verbatim;
            }
            SubKind::Verbatim => break,
            SubKind::Fixed(o) => {
                let o = (o as usize).min(4);
                if matches!(mal, Some(Malform::OrderGtBlock(_))) {
                    kind = SubKind::Fixed(o as u8);
                    coefs = FIXED_COEFS[o].to_vec();
                    residual = vec![0; block.saturating_sub(o)];
                    break;
                }
                if o >= block {
                    // no residual at all: partition rules (block >> 0 > order) fail; use lower order
                    fallback = Some(format!("fixed {o} >= block {block}"));
                    kind = if o == 0 { SubKind::Verbatim } else { SubKind::Fixed(o as u8 - 1) };
                    continue;
                }
                let c = FIXED_COEFS[o];
                let mut ok = true;
                let mut res = Vec::with_capacity(block - o);
                for i in o..block {
                    let mut pred: i64 = 0;
                    for (j, cj) in c.iter().enumerate() {
                        pred += cj * shifted[i - 1 - j];
                    }
                    let r = shifted[i] - pred;
                    if r <= i32::MIN as i64 || r > i32::MAX as i64 {
                        ok = false;
                        break;
                    }
                    res.push(r);
                }
                if ok {
                    kind = SubKind::Fixed(o as u8);
                    coefs = c.to_vec();
                    residual = res;
                    shift = 0;
                    break;
                }
                fallback = Some(format!("fixed {o} residual overflow"));
                kind = if o == 0 { SubKind::Verbatim } else { SubKind::Fixed(o as u8 - 1) };
            }
            SubKind::Lpc(o) => {
                let o = (o as usize).clamp(1, 32);
                if matches!(mal, Some(Malform::OrderGtBlock(_))) {
                    kind = SubKind::Lpc(o as u8);
                    coefs = (0..o).map(|j| plan.coefs.get(j).copied().unwrap_or(1) as i64).collect();
                    residual = vec![0; block.saturating_sub(o)];
                    break;
                }
                if o >= block {
                    fallback = Some(format!("lpc {o} >= block {block}"));
                    kind = if block > 1 { SubKind::Lpc((block - 1).min(32) as u8) } else { SubKind::Verbatim };
                    continue;
                }
                let lo = -(1i64 << (precision - 1));
                let hi = (1i64 << (precision - 1)) - 1;
                let cs: Vec<i64> = (0..o).map(|j| (plan.coefs.get(j).copied().unwrap_or(0) as i64).clamp(lo, hi)).collect();
                let sh = shift.min(15);
                let mut ok = true;
                let mut res = Vec::with_capacity(block - o);
                for i in o..block {
                    let mut pred: i64 = 0;
                    for (j, cj) in cs.iter().enumerate() {
                        pred += cj * shifted[i - 1 - j];
                    }
                    let r = shifted[i] - (pred >> sh);
                    if r <= i32::MIN as i64 || r > i32::MAX as i64 {
                        ok = false;
                        break;
                    }
                    res.push(r);
                }
                if ok {
                    kind = SubKind::Lpc(o as u8);
                    coefs = cs;
                    shift = sh;
                    residual = res;
                    break;
                }
                fallback = Some(format!("lpc {o} residual overflow"));
                kind = SubKind::Verbatim;
            }
        }
    }
    let _ = &mut precision;
    if let Some(f) = &fallback {
        notes.push(f.clone());
    }

    // header
    w.bit(if matches!(mal, Some(Malform::SubPadBit(_))) { 1 } else { 0 });
    let type_code: u64 = match (mal, kind) {
        (Some(Malform::SubReservedType(_, code)), _) => code as u64,
        (_, SubKind::Constant) => 0,
        (_, SubKind::Verbatim) => 1,
        (_, SubKind::Fixed(o)) => 8 + o as u64,
        (_, SubKind::Lpc(o)) => 31 + o as u64,
    };
    w.u(6, type_code);
    if matches!(mal, Some(Malform::WastedGeBps(_))) {
        // claim bps (or more) wasted bits
        w.bit(1);
        w.unary0(bps as u64 - 1);
    } else if wasted == 0 {
        w.bit(0);
    } else {
        w.bit(1);
        w.unary0(wasted as u64 - 1);
    }
    match kind {
        SubKind::Constant => w.i(eb, shifted[0]),
        SubKind::Verbatim => {
            for s in &shifted {
                w.i(eb, *s);
            }
        }
        SubKind::Fixed(o) => {
            let o = o as usize;
            for s in shifted.iter().take(o.min(block)) {
                w.i(eb, *s);
            }
            if o > block {
                for _ in block..o {
                    w.i(eb, 0);
                }
            }
            emit_residual(w, &residual, block, o, plan, mal, notes);
        }
        SubKind::Lpc(o) => {
            let o = o as usize;
            for s in shifted.iter().take(o.min(block)) {
                w.i(eb, *s);
            }
            if o > block {
                for _ in block..o {
                    w.i(eb, 0);
                }
            }
            if matches!(mal, Some(Malform::Precision15(_))) {
                w.u(4, 15);
                precision = 15;
            } else {
                w.u(4, precision as u64 - 1);
            }
            if matches!(mal, Some(Malform::NegativeShift(_))) {
                w.i(5, -1 - (shift as i64 % 15));
            } else {
                w.i(5, shift as i64);
            }
            for c in &coefs {
                w.i(precision as u32, *c);
            }
            emit_residual(w, &residual, block, o, plan, mal, notes);
        }
    }
    SubOut { fallback }
}

/// Builds the bytes of one frame.  `chans` = target PCM of this block per channel.
pub fn build_frame(
    params: &StreamParams,
    plan: &FramePlan,
    number: u64,
    chans: &[Vec<i32>],
    notes: &mut Vec<String>,
) -> Vec<u8> {
    let bs = chans[0].len();
    let nch = chans.len();
    let mal = plan.malform;
    let mut w = BitWriter::new();
    w.u(15, 0b111111111111100);
    w.bit(params.variable as u32);
    // block size code
    let table = table_block_code(bs as u32);
    let (bs_code, bs_extra): (u8, Option<(u32, u64)>) = match (plan.bs_coding, table) {
        (BsCoding::Auto, Some(c)) => (c, None),
        (BsCoding::Force8, _) if bs <= 256 => (6, Some((8, bs as u64 - 1))),
        (BsCoding::Auto, None) if bs <= 256 => (6, Some((8, bs as u64 - 1))),
        _ => (7, Some((16, bs as u64 - 1))),
    };
    let bs_code = if matches!(mal, Some(Malform::BsCode0)) { 0 } else { bs_code };
    w.u(4, bs_code as u64);
    // sample rate code
    let rate = params.rate;
    let legal = legal_rate_codings(rate);
    let want = match plan.rate_coding {
        RateCoding::Auto => {
            if legal.contains(&RateCoding::Table) {
                RateCoding::Table
            } else {
                RateCoding::Streaminfo
            }
        }
        other if legal.contains(&other) => other,
        _ => RateCoding::Streaminfo,
    };
    let (mut rate_code, mut rate_extra): (u8, Option<(u32, u64)>) = match want {
        RateCoding::Streaminfo | RateCoding::Auto => (0, None),
        RateCoding::Table => (table_rate_code(rate).unwrap(), None),
        RateCoding::KHz => (12, Some((8, (rate / 1000) as u64))),
        RateCoding::Hz => (13, Some((16, rate as u64))),
        RateCoding::DaHz => (14, Some((16, (rate / 10) as u64))),
    };
    match mal {
        Some(Malform::RateCode15) => {
            rate_code = 15;
            rate_extra = None;
        }
        Some(Malform::RateMismatch) => {
            // a table rate different from the stream's
            rate_code = if rate == 44100 { 10 } else { 9 };
            rate_extra = None;
        }
        _ => {}
    }
    w.u(4, rate_code as u64);
    // channel assignment
    let mut ch_code: u8 = if plan.assignment >= 8 && nch == 2 { plan.assignment.min(10) } else { nch as u8 - 1 };
    match mal {
        Some(Malform::ChCode(c)) => ch_code = c,
        Some(Malform::ChannelsMismatch) => ch_code = if nch == 8 { 6 } else { nch as u8 },
        _ => {}
    }
    w.u(4, ch_code as u64);
    // bit depth
    let mut bps_code = match (plan.bps_coding, table_bps_code(params.bps)) {
        (BpsCoding::Auto, Some(c)) => c,
        _ => 0,
    };
    match mal {
        Some(Malform::BpsCode3) => bps_code = 3,
        Some(Malform::BpsMismatch) => bps_code = if params.bps == 16 { 6 } else { 4 },
        _ => {}
    }
    w.u(3, bps_code as u64);
    w.bit(plan.reserved_bit as u32);
    match mal {
        Some(Malform::NumberLeadInvalid) => w.u(8, 0xFF),
        Some(Malform::NumberContInvalid) => {
            w.u(8, 0xC2);
            w.u(8, 0x41);
        }
        _ => write_coded_number(&mut w, number, plan.number_extra_bytes),
    }
    if let Some((n, v)) = bs_extra {
        w.u(n, v);
    }
    if let Some((n, v)) = rate_extra {
        w.u(n, v);
    }
    let mut c8 = crc8(&w.data);
    if matches!(mal, Some(Malform::Crc8Wrong)) {
        c8 ^= 0x5A;
    }
    w.u(8, c8 as u64);

    // decorrelate
    let assignment = if plan.assignment >= 8 && nch == 2 { plan.assignment.min(10) } else { 0 };
    let mut subs: Vec<(Vec<i64>, u32)> = Vec::with_capacity(nch);
    let b = params.bps as u32;
    let as64 = |v: &Vec<i32>| v.iter().map(|s| *s as i64).collect::<Vec<i64>>();
    match assignment {
        8 => {
            let l = as64(&chans[0]);
            let r = as64(&chans[1]);
            let side: Vec<i64> = l.iter().zip(&r).map(|(a, b)| a - b).collect();
            subs.push((l, b));
            subs.push((side, b + 1));
        }
        9 => {
            let l = as64(&chans[0]);
            let r = as64(&chans[1]);
            let side: Vec<i64> = l.iter().zip(&r).map(|(a, b)| a - b).collect();
            subs.push((side, b + 1));
            subs.push((r, b));
        }
        10 => {
            let l = as64(&chans[0]);
            let r = as64(&chans[1]);
            let mid: Vec<i64> = l.iter().zip(&r).map(|(a, b)| (a + b) >> 1).collect();
            let side: Vec<i64> = l.iter().zip(&r).map(|(a, b)| a - b).collect();
            subs.push((mid, b));
            subs.push((side, b + 1));
        }
        _ => {
            for c in chans {
                subs.push((as64(c), b));
            }
        }
    }
    let default_plan = SubPlan::verbatim();
    for (i, (samples, sbps)) in subs.iter().enumerate() {
        let sp = plan.subs.get(i).unwrap_or(&default_plan);
        emit_subframe(&mut w, samples, *sbps, sp, i as u8, mal, notes);
    }
    let _ = bs;
    w.align_with(plan.pad_ones as u32);
    let mut c16 = crc16(&w.data);
    if matches!(mal, Some(Malform::Crc16Wrong)) {
        c16 ^= 0x0420;
    }
    w.u(16, c16 as u64);
    let mut bytes = w.into_bytes();
    if let Some(Malform::Truncate(permille)) = mal {
        let keep = (bytes.len() * permille as usize / 1000).min(bytes.len().saturating_sub(1));
        bytes.truncate(keep);
    }
    bytes
}

/// Builds a whole file.  `pcm` is per channel; the plans' block sizes must sum
/// to at most the PCM length (the stream covers exactly the planned blocks).
pub fn build_stream(params: &StreamParams, pcm: &[Vec<i32>], plans: &[FramePlan]) -> GenStream {
    let mut notes = GenNotes::default();
    let nch = params.channels as usize;
    assert_eq!(pcm.len(), nch);
    let mut frames_bytes: Vec<Vec<u8>> = Vec::with_capacity(plans.len());
    let mut pos = 0usize;
    let mut meta: Vec<(u64, u32, bool)> = vec![];
    for (i, plan) in plans.iter().enumerate() {
        let bs = plan.block_size as usize;
        let block: Vec<Vec<i32>> = pcm.iter().map(|c| c[pos..pos + bs].to_vec()).collect();
        let number = if params.variable { params.start_number + pos as u64 } else { params.start_number + i as u64 };
        let fb = build_frame(params, plan, number, &block, &mut notes.fallbacks);
        frames_bytes.push(fb);
        meta.push((pos as u64, plan.block_size, plan.malform.is_some()));
        pos += bs;
    }
    let total = pos as u64;
    let inter: Vec<i32> = {
        let mut v = Vec::with_capacity(pos * nch);
        for i in 0..pos {
            for c in pcm {
                v.push(c[i]);
            }
        }
        v
    };
    let md5 = match params.md5 {
        Md5Mode::Correct => crate::md5::md5_of_pcm(&inter, params.bps as u32),
        Md5Mode::Wrong => {
            let mut m = crate::md5::md5_of_pcm(&inter, params.bps as u32);
            m[5] ^= 0x10;
            if m == [0u8; 16] {
                m[0] = 1;
            }
            m
        }
        Md5Mode::Absent => [0u8; 16],
    };
    let (minb, maxb) = match params.min_max_block {
        Some(x) => x,
        None => {
            let sizes: Vec<u32> = plans.iter().map(|p| p.block_size).collect();
            let maxb = sizes.iter().copied().max().unwrap_or(16).max(16).min(65535) as u16;
            // the final block may be short: min over the non-final blocks
            let minb = if sizes.len() > 1 {
                sizes[..sizes.len() - 1].iter().copied().min().unwrap().max(16).min(65535) as u16
            } else {
                maxb
            };
            (minb.min(maxb), maxb)
        }
    };
    let lens: Vec<u32> = frames_bytes.iter().map(|f| f.len() as u32).collect();
    let info = StreamInfo {
        min_block: minb,
        max_block: maxb,
        min_frame: if params.frame_sizes { lens.iter().copied().min().unwrap_or(0) } else { 0 },
        max_frame: if params.frame_sizes { lens.iter().copied().max().unwrap_or(0) } else { 0 },
        rate: params.rate,
        channels: params.channels,
        bps: params.bps,
        total: if params.total_known { total } else { 0 },
        md5,
    };
    // seek table
    let mut offsets = Vec::with_capacity(lens.len());
    let mut o = 0u64;
    for l in &lens {
        offsets.push(o);
        o += *l as u64;
    }
    let point = |i: usize| SeekPoint { sample: meta[i].0, offset: offsets[i], nsamples: meta[i].1 as u16 };
    let ph = SeekPoint { sample: u64::MAX, offset: 0, nsamples: 0 };
    let seekpoints: Option<Vec<SeekPoint>> = match &params.seek {
        SeekMode::None => None,
        SeekMode::Empty => Some(vec![]),
        SeekMode::EveryFrame => Some((0..lens.len()).map(point).collect()),
        SeekMode::Every(n) => Some((0..lens.len()).step_by((*n).max(1)).map(point).collect()),
        SeekMode::WithPlaceholders(n, k) => {
            let mut v: Vec<SeekPoint> = (0..lens.len()).step_by((*n).max(1)).map(point).collect();
            v.extend(std::iter::repeat(ph).take(*k));
            Some(v)
        }
        SeekMode::OnlyPlaceholders(k) => Some(std::iter::repeat(ph).take(*k).collect()),
    };
    let mut blocks: Vec<(u8, Vec<u8>)> = vec![(0, info.to_bytes().to_vec())];
    if let Some(pts) = &seekpoints {
        let mut body = Vec::with_capacity(pts.len() * 18);
        for p in pts {
            body.extend_from_slice(&p.sample.to_be_bytes());
            body.extend_from_slice(&p.offset.to_be_bytes());
            body.extend_from_slice(&p.nsamples.to_be_bytes());
        }
        blocks.push((3, body));
    }
    for b in &params.extra_blocks {
        blocks.push(b.clone());
    }
    let mut bytes = b"fLaC".to_vec();
    let nb = blocks.len();
    for (i, (t, body)) in blocks.iter().enumerate() {
        let last = i + 1 == nb;
        bytes.push((*t & 0x7f) | if last { 0x80 } else { 0 });
        bytes.extend_from_slice(&(body.len() as u32).to_be_bytes()[1..]);
        bytes.extend_from_slice(body);
    }
    let frames_start = bytes.len();
    let mut frames = Vec::with_capacity(lens.len());
    for (i, fb) in frames_bytes.iter().enumerate() {
        frames.push(GenFrame {
            offset: bytes.len(),
            len: fb.len(),
            first_sample: meta[i].0,
            block_size: meta[i].1,
            malformed: meta[i].2,
        });
        bytes.extend_from_slice(fb);
    }
    GenStream { bytes, frames_start, frames, info, seekpoints: seekpoints.unwrap_or_default(), notes }
}

// ---------------------------------------------------------------------------
// random / systematic plans
// ---------------------------------------------------------------------------

/// Simple least-squares-free LPC guess: coefficients that roughly continue the
/// signal, quantised to `precision` bits with `shift`.
pub fn guess_lpc(order: usize, precision: u8, shift: u8, rng: &mut Rng, style: u8) -> Vec<i32> {
    let lo = -(1i64 << (precision - 1));
    let hi = (1i64 << (precision - 1)) - 1;
    let one = 1i64 << shift.min(30);
    (0..order)
        .map(|j| {
            let v = match style {
                0 => {
                    // fixed-predictor-like first coefficients
                    match j {
                        0 => 2 * one,
                        1 => -one,
                        _ => 0,
                    }
                }
                1 => rng.range(lo, hi),
                2 => {
                    if rng.chance(1, 2) {
                        hi
                    } else {
                        lo
                    }
                }
                _ => {
                    if j == 0 {
                        one
                    } else {
                        rng.range(-(one / 4).max(1), (one / 4).max(1))
                    }
                }
            };
            v.clamp(lo, hi) as i32
        })
        .collect()
}

pub fn random_subplan(rng: &mut Rng, block: usize, bps: u32) -> SubPlan {
    let kind = match rng.below(10) {
        0 => SubKind::Constant,
        1 => SubKind::Verbatim,
        2..=5 => SubKind::Fixed(rng.below(5) as u8),
        _ => SubKind::Lpc(rng.range(1, 32) as u8),
    };
    let precision = rng.range(1, 15) as u8;
    let shift = rng.range(0, 15) as u8;
    let order = match kind {
        SubKind::Lpc(o) => o as usize,
        _ => 0,
    };
    let style = rng.below(4) as u8;
    let coefs = guess_lpc(order, precision, shift, rng, style);
    let method = if bps > 16 { rng.below(2) as u8 } else { (rng.below(4) == 0) as u8 };
    let part_order = rng.below(9) as u8;
    let nparts = 1usize << part_order.min(8);
    let parts = (0..nparts.min(block.max(1)))
        .map(|_| match rng.below(8) {
            0 => PartChoice::Escape(rng.below(4) as u8),
            1 => PartChoice::Rice(rng.below(31) as u8),
            _ => PartChoice::Auto,
        })
        .collect();
    SubPlan {
        kind,
        wasted: if rng.chance(1, 2) { None } else { Some(rng.below(8) as u32) },
        precision,
        shift,
        coefs,
        method,
        part_order,
        parts,
    }
}

pub fn random_frame_plan(rng: &mut Rng, params: &StreamParams, block: usize) -> FramePlan {
    let nch = params.channels as usize;
    let assignment = if nch == 2 && rng.chance(2, 3) { 8 + rng.below(3) as u8 } else { 0 };
    let subs = (0..nch)
        .map(|i| {
            let side = matches!((assignment, i), (8, 1) | (9, 0) | (10, 1));
            random_subplan(rng, block, params.bps as u32 + side as u32)
        })
        .collect();
    FramePlan {
        block_size: block as u32,
        bs_coding: *rng.pick(&[BsCoding::Auto, BsCoding::Auto, BsCoding::Force8, BsCoding::Force16]),
        rate_coding: *rng.pick(&[RateCoding::Auto, RateCoding::Streaminfo, RateCoding::Table, RateCoding::KHz, RateCoding::Hz, RateCoding::DaHz]),
        bps_coding: *rng.pick(&[BpsCoding::Auto, BpsCoding::Auto, BpsCoding::Streaminfo]),
        assignment,
        subs,
        number_extra_bytes: 0,
        reserved_bit: false,
        pad_ones: false,
        malform: None,
    }
}

/// Splits `total` samples into block sizes.  Fixed-blocksize streams: every
/// block == `bs` except a shorter final one.  Variable: arbitrary sizes >= 16
/// (last may be anything >= 1).
pub fn split_blocks(rng: &mut Rng, total: usize, bs: usize, variable: bool) -> Vec<usize> {
    let mut out = vec![];
    let mut left = total;
    if !variable {
        while left > 0 {
            let b = bs.min(left);
            out.push(b);
            left -= b;
        }
    } else {
        while left > 0 {
            let b = if left <= 16 { left } else { rng.usize(16, bs.max(16)).min(left) };
            // do not leave a dangling short block before the end unless it is last
            out.push(b);
            left -= b;
        }
    }
    out
}
