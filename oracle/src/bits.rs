//! MSB-first bit reader / writer (written for this harness; no third-party code).

#[derive(Debug, Clone, Copy, PartialEq, Eq)]
pub struct Eof;

#[derive(Clone)]
pub struct BitReader<'a> {
    data: &'a [u8],
    pos: usize, // in bits
}

impl<'a> BitReader<'a> {
    pub fn new(data: &'a [u8]) -> Self {
        Self { data, pos: 0 }
    }
    pub fn at(data: &'a [u8], byte_offset: usize) -> Self {
        Self { data, pos: byte_offset * 8 }
    }
    #[inline]
    pub fn bit_pos(&self) -> usize {
        self.pos
    }
    #[inline]
    pub fn byte_pos(&self) -> usize {
        self.pos / 8
    }
    #[inline]
    pub fn aligned(&self) -> bool {
        self.pos % 8 == 0
    }
    #[inline]
    pub fn remaining_bits(&self) -> usize {
        (self.data.len() * 8).saturating_sub(self.pos)
    }
    #[inline]
    pub fn bit(&mut self) -> Result<u32, Eof> {
        let byte = *self.data.get(self.pos / 8).ok_or(Eof)?;
        let b = (byte >> (7 - (self.pos % 8))) & 1;
        self.pos += 1;
        Ok(b as u32)
    }
    /// Reads `n` (0..=64) bits as unsigned, MSB first.
    pub fn u(&mut self, n: u32) -> Result<u64, Eof> {
        debug_assert!(n <= 64);
        if self.remaining_bits() < n as usize {
            return Err(Eof);
        }
        let mut v: u64 = 0;
        let mut left = n;
        while left > 0 {
            let byte = self.data[self.pos / 8] as u64;
            let avail = 8 - (self.pos % 8) as u32;
            let take = avail.min(left);
            let shifted = (byte >> (avail - take)) & ((1u64 << take) - 1);
            v = (v << take) | shifted;
            self.pos += take as usize;
            left -= take;
        }
        Ok(v)
    }
    /// Reads `n` (1..=64) bits as two's complement signed.
    pub fn i(&mut self, n: u32) -> Result<i64, Eof> {
        debug_assert!((1..=64).contains(&n));
        let v = self.u(n)?;
        if n == 64 {
            Ok(v as i64)
        } else if (v >> (n - 1)) & 1 == 1 {
            Ok((v as i64) - (1i64 << n))
        } else {
            Ok(v as i64)
        }
    }
    /// Counts 0 bits up to and including the terminating 1 bit; returns the
    /// number of zeros.  `limit` bounds the run (Err(Some(limit)) when hit).
    pub fn unary0(&mut self, limit: u64) -> Result<u64, Option<u64>> {
        let mut n = 0u64;
        loop {
            match self.bit() {
                Err(Eof) => return Err(None),
                Ok(1) => return Ok(n),
                Ok(_) => {
                    n += 1;
                    if n > limit {
                        return Err(Some(n));
                    }
                }
            }
        }
    }
    /// Skips to the next byte boundary; returns the skipped bits' value.
    pub fn align(&mut self) -> Result<u64, Eof> {
        let n = (8 - self.pos % 8) % 8;
        self.u(n as u32)
    }
    pub fn bytes(&mut self, n: usize) -> Result<&'a [u8], Eof> {
        assert!(self.aligned());
        let s = self.pos / 8;
        if s + n > self.data.len() {
            return Err(Eof);
        }
        self.pos += n * 8;
        Ok(&self.data[s..s + n])
    }
}

#[derive(Default, Clone)]
pub struct BitWriter {
    pub data: Vec<u8>,
    nbits: usize,
}

impl BitWriter {
    pub fn new() -> Self {
        Self::default()
    }
    #[inline]
    pub fn bit_len(&self) -> usize {
        self.nbits
    }
    #[inline]
    pub fn aligned(&self) -> bool {
        self.nbits % 8 == 0
    }
    #[inline]
    pub fn bit(&mut self, b: u32) {
        if self.nbits % 8 == 0 {
            self.data.push(0);
        }
        if b & 1 == 1 {
            let last = self.data.len() - 1;
            self.data[last] |= 1 << (7 - (self.nbits % 8));
        }
        self.nbits += 1;
    }
    /// Writes the low `n` (0..=64) bits of `v`, MSB first.
    pub fn u(&mut self, n: u32, v: u64) {
        debug_assert!(n <= 64);
        for k in (0..n).rev() {
            self.bit(((v >> k) & 1) as u32);
        }
    }
    /// Writes `v` as `n`-bit two's complement.
    pub fn i(&mut self, n: u32, v: i64) {
        self.u(n, v as u64);
    }
    /// `q` zero bits followed by a one bit.
    pub fn unary0(&mut self, q: u64) {
        for _ in 0..q {
            self.bit(0);
        }
        self.bit(1);
    }
    pub fn align_with(&mut self, fill: u32) {
        while self.nbits % 8 != 0 {
            self.bit(fill);
        }
    }
    pub fn bytes(&mut self, b: &[u8]) {
        assert!(self.aligned());
        self.data.extend_from_slice(b);
        self.nbits += b.len() * 8;
    }
    pub fn into_bytes(self) -> Vec<u8> {
        self.data
    }
}

#[cfg(test)]
mod t {
    use super::*;
    #[test]
    fn roundtrip() {
        let mut w = BitWriter::new();
        w.u(3, 5);
        w.i(7, -3);
        w.unary0(4);
        w.u(64, 0xDEADBEEF01234567);
        w.i(33, -(1i64 << 32));
        w.i(1, -1);
        w.align_with(0);
        let d = w.into_bytes();
        let mut r = BitReader::new(&d);
        assert_eq!(r.u(3).unwrap(), 5);
        assert_eq!(r.i(7).unwrap(), -3);
        assert_eq!(r.unary0(100).unwrap(), 4);
        assert_eq!(r.u(64).unwrap(), 0xDEADBEEF01234567);
        assert_eq!(r.i(33).unwrap(), -(1i64 << 32));
        assert_eq!(r.i(1).unwrap(), -1);
    }
}
