//! Small deterministic PRNG (xoshiro256** seeded through splitmix64).

#[derive(Clone, Debug)]
pub struct Rng {
    s: [u64; 4],
}

fn splitmix(x: &mut u64) -> u64 {
    *x = x.wrapping_add(0x9E3779B97F4A7C15);
    let mut z = *x;
    z = (z ^ (z >> 30)).wrapping_mul(0xBF58476D1CE4E5B9);
    z = (z ^ (z >> 27)).wrapping_mul(0x94D049BB133111EB);
    z ^ (z >> 31)
}

impl Rng {
    pub fn new(seed: u64) -> Self {
        let mut x = seed;
        let s = [splitmix(&mut x), splitmix(&mut x), splitmix(&mut x), splitmix(&mut x)];
        Self { s }
    }
    /// derive an independent stream
    pub fn fork(&mut self, tag: u64) -> Rng {
        let a = self.next();
        Rng::new(a ^ tag.wrapping_mul(0xD6E8FEB86659FD93))
    }
    pub fn next(&mut self) -> u64 {
        let r = self.s[1].wrapping_mul(5).rotate_left(7).wrapping_mul(9);
        let t = self.s[1] << 17;
        self.s[2] ^= self.s[0];
        self.s[3] ^= self.s[1];
        self.s[1] ^= self.s[2];
        self.s[0] ^= self.s[3];
        self.s[2] ^= t;
        self.s[3] = self.s[3].rotate_left(45);
        r
    }
    /// uniform in 0..n (n > 0)
    pub fn below(&mut self, n: u64) -> u64 {
        debug_assert!(n > 0);
        // bias is irrelevant here
        self.next() % n
    }
    /// uniform in lo..=hi
    pub fn range(&mut self, lo: i64, hi: i64) -> i64 {
        debug_assert!(lo <= hi);
        let span = (hi as i128 - lo as i128 + 1) as u128;
        (lo as i128 + (self.next() as u128 % span) as i128) as i64
    }
    pub fn usize(&mut self, lo: usize, hi: usize) -> usize {
        self.range(lo as i64, hi as i64) as usize
    }
    pub fn chance(&mut self, num: u64, den: u64) -> bool {
        self.below(den) < num
    }
    pub fn pick<'a, T>(&mut self, v: &'a [T]) -> &'a T {
        &v[self.below(v.len() as u64) as usize]
    }
    pub fn f64(&mut self) -> f64 {
        (self.next() >> 11) as f64 / (1u64 << 53) as f64
    }
    /// between lo and hi random bytes
    pub fn rbytes(&mut self, lo: usize, hi: usize) -> Vec<u8> {
        let n = self.usize(lo, hi);
        self.bytes(n)
    }
    pub fn bytes(&mut self, n: usize) -> Vec<u8> {
        let mut v = Vec::with_capacity(n);
        while v.len() < n {
            v.extend_from_slice(&self.next().to_le_bytes());
        }
        v.truncate(n);
        v
    }
}
