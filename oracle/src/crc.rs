//! CRC-8 (poly x^8+x^2+x+1 = 0x07, init 0) and CRC-16 (poly x^16+x^15+x^2+1 = 0x8005, init 0)
//! computed bit-serially straight from the polynomial definition in RFC 9639
//! sections 9.1.8 and 9.3 (deliberately no lookup tables).

pub fn crc8(data: &[u8]) -> u8 {
    let mut crc: u8 = 0;
    for &byte in data {
        for k in (0..8).rev() {
            let inbit = (byte >> k) & 1;
            let top = (crc >> 7) & 1;
            crc <<= 1;
            if top ^ inbit == 1 {
                crc ^= 0x07;
            }
        }
    }
    crc
}

pub fn crc16(data: &[u8]) -> u16 {
    let mut crc: u16 = 0;
    for &byte in data {
        for k in (0..8).rev() {
            let inbit = ((byte >> k) & 1) as u16;
            let top = (crc >> 15) & 1;
            crc <<= 1;
            if top ^ inbit == 1 {
                crc ^= 0x8005;
            }
        }
    }
    crc
}

#[cfg(test)]
mod t {
    use super::*;
    #[test]
    fn kat() {
        // CRC-8/SMBUS ("123456789") = 0xF4 ; CRC-16/UMTS (a.k.a. BUYPASS) = 0xFEE8
        assert_eq!(crc8(b"123456789"), 0xF4);
        assert_eq!(crc16(b"123456789"), 0xFEE8);
    }
}
