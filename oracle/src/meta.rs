//! Independent builders for metadata block bodies (RFC 9639 section 8) and a
//! serialiser for whole metadata sections.  Used to measure sizes, to build
//! base files with arbitrary block layouts and to craft extreme / malformed
//! sections.  No code shared with flac-codec.

use crate::rng::Rng;

#[derive(Debug, Clone, PartialEq, Eq)]
pub struct RawBlock {
    pub btype: u8,
    pub body: Vec<u8>,
}

/// "fLaC" + blocks with correct headers (last flag on the final block).
pub fn serialize_section(blocks: &[RawBlock]) -> Vec<u8> {
    let mut out = b"fLaC".to_vec();
    let n = blocks.len();
    for (i, b) in blocks.iter().enumerate() {
        out.push((b.btype & 0x7f) | if i + 1 == n { 0x80 } else { 0 });
        out.extend_from_slice(&(b.body.len() as u32).to_be_bytes()[1..]);
        out.extend_from_slice(&b.body);
    }
    out
}

/// Section with explicit control over header fields (for malformed input).
pub fn serialize_section_raw(blocks: &[(u8, bool, u32, Vec<u8>)]) -> Vec<u8> {
    let mut out = b"fLaC".to_vec();
    for (t, last, declared_len, body) in blocks {
        out.push((t & 0x7f) | if *last { 0x80 } else { 0 });
        out.extend_from_slice(&declared_len.to_be_bytes()[1..]);
        out.extend_from_slice(body);
    }
    out
}

pub fn padding(n: usize) -> RawBlock {
    RawBlock { btype: 1, body: vec![0; n] }
}

pub fn application(id: [u8; 4], data: &[u8]) -> RawBlock {
    let mut body = id.to_vec();
    body.extend_from_slice(data);
    RawBlock { btype: 2, body }
}

pub fn vorbis_comment(vendor: &[u8], fields: &[Vec<u8>]) -> RawBlock {
    let mut body = (vendor.len() as u32).to_le_bytes().to_vec();
    body.extend_from_slice(vendor);
    body.extend_from_slice(&(fields.len() as u32).to_le_bytes());
    for f in fields {
        body.extend_from_slice(&(f.len() as u32).to_le_bytes());
        body.extend_from_slice(f);
    }
    RawBlock { btype: 4, body }
}

#[allow(clippy::too_many_arguments)]
pub fn picture(ptype: u32, mime: &[u8], desc: &[u8], w: u32, h: u32, depth: u32, colors: u32, data: &[u8]) -> RawBlock {
    let mut body = ptype.to_be_bytes().to_vec();
    body.extend_from_slice(&(mime.len() as u32).to_be_bytes());
    body.extend_from_slice(mime);
    body.extend_from_slice(&(desc.len() as u32).to_be_bytes());
    body.extend_from_slice(desc);
    body.extend_from_slice(&w.to_be_bytes());
    body.extend_from_slice(&h.to_be_bytes());
    body.extend_from_slice(&depth.to_be_bytes());
    body.extend_from_slice(&colors.to_be_bytes());
    body.extend_from_slice(&(data.len() as u32).to_be_bytes());
    body.extend_from_slice(data);
    RawBlock { btype: 6, body }
}

pub fn seektable(points: &[(u64, u64, u16)]) -> RawBlock {
    let mut body = Vec::with_capacity(points.len() * 18);
    for (s, o, n) in points {
        body.extend_from_slice(&s.to_be_bytes());
        body.extend_from_slice(&o.to_be_bytes());
        body.extend_from_slice(&n.to_be_bytes());
    }
    RawBlock { btype: 3, body }
}

#[derive(Debug, Clone, PartialEq, Eq)]
pub struct CueIndex {
    pub offset: u64,
    pub number: u8,
}

#[derive(Debug, Clone, PartialEq, Eq)]
pub struct CueTrack {
    pub offset: u64,
    pub number: u8,
    pub isrc: [u8; 12],
    pub non_audio: bool,
    pub pre_emphasis: bool,
    pub indices: Vec<CueIndex>,
}

pub fn cuesheet(catalog: &[u8], lead_in: u64, is_cd: bool, tracks: &[CueTrack]) -> RawBlock {
    let mut body = vec![0u8; 128];
    body[..catalog.len().min(128)].copy_from_slice(&catalog[..catalog.len().min(128)]);
    body.extend_from_slice(&lead_in.to_be_bytes());
    body.push(if is_cd { 0x80 } else { 0 });
    body.extend_from_slice(&[0u8; 258]);
    body.push(tracks.len() as u8);
    for t in tracks {
        body.extend_from_slice(&t.offset.to_be_bytes());
        body.push(t.number);
        body.extend_from_slice(&t.isrc);
        body.push((if t.non_audio { 0x80 } else { 0 }) | (if t.pre_emphasis { 0x40 } else { 0 }));
        body.extend_from_slice(&[0u8; 13]);
        body.push(t.indices.len() as u8);
        for i in &t.indices {
            body.extend_from_slice(&i.offset.to_be_bytes());
            body.push(i.number);
            body.extend_from_slice(&[0u8; 3]);
        }
    }
    RawBlock { btype: 5, body }
}

/// A valid CD-DA style cue sheet block body with `ntracks` tracks.
pub fn simple_cuesheet(rng: &mut Rng, ntracks: usize, is_cd: bool) -> RawBlock {
    let mut tracks = vec![];
    let mut pos = 0u64;
    for t in 0..ntracks {
        let nidx = rng.usize(1, 4);
        let mut indices = vec![];
        let mut off = 0u64;
        for i in 0..nidx {
            indices.push(CueIndex { offset: off, number: (i + 1) as u8 });
            off += 588 * rng.usize(1, 500) as u64;
        }
        tracks.push(CueTrack { offset: pos, number: (t + 1) as u8, isrc: [0; 12], non_audio: false, pre_emphasis: rng.chance(1, 4), indices });
        pos += off + 588 * rng.usize(1, 3000) as u64;
    }
    tracks.push(CueTrack { offset: pos, number: if is_cd { 170 } else { 255 }, isrc: [0; 12], non_audio: false, pre_emphasis: false, indices: vec![] });
    cuesheet(if is_cd { b"1234567890123" } else { b"" }, if is_cd { 88200 } else { 0 }, is_cd, &tracks)
}

/// Minimal PNG / JPEG / GIF headers with chosen fields (for the picture sniffers).
pub fn png_header(width: u32, height: u32, bit_depth: u8, color_type: u8, plte_len: Option<u32>) -> Vec<u8> {
    let mut v = b"\x89PNG\r\n\x1a\n".to_vec();
    v.extend_from_slice(&13u32.to_be_bytes());
    v.extend_from_slice(b"IHDR");
    v.extend_from_slice(&width.to_be_bytes());
    v.extend_from_slice(&height.to_be_bytes());
    v.extend_from_slice(&[bit_depth, color_type, 0, 0, 0]);
    v.extend_from_slice(&[0, 0, 0, 0]); // crc (not validated)
    if let Some(n) = plte_len {
        // an unrelated chunk first, then PLTE
        v.extend_from_slice(&4u32.to_be_bytes());
        v.extend_from_slice(b"gAMA");
        v.extend_from_slice(&[0, 1, 2, 3, 0, 0, 0, 0]);
        v.extend_from_slice(&n.to_be_bytes());
        v.extend_from_slice(b"PLTE");
        v.extend_from_slice(&vec![7u8; (n as usize).min(800)]);
        v.extend_from_slice(&[0, 0, 0, 0]);
    }
    v
}

pub fn jpeg_header(precision: u8, height: u16, width: u16, components: u8, marker: u8, pre_segments: &[(u8, u16)]) -> Vec<u8> {
    let mut v = vec![0xFF, 0xD8];
    for (m, len) in pre_segments {
        v.extend_from_slice(&[0xFF, *m]);
        v.extend_from_slice(&len.to_be_bytes());
        v.extend_from_slice(&vec![0u8; (*len as usize).saturating_sub(2).min(300)]);
    }
    v.extend_from_slice(&[0xFF, marker]);
    v.extend_from_slice(&17u16.to_be_bytes());
    v.push(precision);
    v.extend_from_slice(&height.to_be_bytes());
    v.extend_from_slice(&width.to_be_bytes());
    v.push(components);
    v
}

pub fn gif_header(width: u16, height: u16, flags: u8) -> Vec<u8> {
    let mut v = b"GIF89a".to_vec();
    v.extend_from_slice(&width.to_le_bytes());
    v.extend_from_slice(&height.to_le_bytes());
    v.push(flags);
    v.extend_from_slice(&[0, 0]);
    v
}
