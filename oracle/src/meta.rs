//! Independent metadata block model: typed blocks with own serialiser/parser.
