use flacref::dec::{decode_file, deinterleave, Rules};
use flacref::sgen::*;
use flacref::pcm::{generate, ALL_SIGNALS};
use flacref::rng::Rng;

#[test]
fn fixtures_decode_and_md5_match() {
    let mut n = 0;
    for e in std::fs::read_dir("/repo/tests/data").unwrap() {
        let p = e.unwrap().path();
        if p.extension().map(|x| x == "flac").unwrap_or(false) {
            let data = std::fs::read(&p).unwrap();
            let mut rules = Rules::STRICT;
            // libFLAC fixtures may carry ID3/garbage-free tails; keep strict
            rules.no_trailing = true;
            // the tiny hand-made fixtures repeat frame number 0 and use 20-sample blocks
            rules.consecutive = false;
            rules.blocksize_consistency = false;
            rules.frame_sizes = false;
            let d = decode_file(&data, &rules).unwrap_or_else(|e| panic!("{p:?}: {e}"));
            assert!(d.info.md5 != [0u8; 16], "{p:?} has md5");
            assert!(!d.frames.is_empty());
            n += 1;
        }
    }
    assert!(n >= 4, "found {n} fixtures");
}

#[test]
fn generated_streams_are_accepted_and_reproduce_pcm() {
    let mut rng = Rng::new(12345);
    let mut kinds = std::collections::BTreeMap::new();
    for case in 0..600 {
        let channels = rng.usize(1, 8) as u8;
        let bps = rng.usize(1, 32) as u8;
        let rate = *rng.pick(&[0u32, 1, 8000, 11000, 12345, 44100, 44110, 65535, 65536, 96000, 192000, 655350, 700001, 1048575]);
        let variable = rng.chance(1, 3);
        let bs = *rng.pick(&[16usize, 17, 31, 32, 192, 255, 256, 257, 576, 1024, 4096]);
        let total = rng.usize(1, 3 * bs + 5).min(9000);
        let sig = *rng.pick(&ALL_SIGNALS);
        let inter = generate(sig, channels as usize, bps as u32, total, &mut rng);
        let pcm = deinterleave(&inter, channels as usize);
        let mut params = StreamParams::simple(channels, bps, rate);
        params.variable = variable;
        params.total_known = rng.chance(3, 4);
        params.md5 = *rng.pick(&[Md5Mode::Correct, Md5Mode::Absent]);
        params.seek = match rng.below(5) {
            0 => SeekMode::None,
            1 => SeekMode::EveryFrame,
            2 => SeekMode::Every(2),
            3 => SeekMode::WithPlaceholders(3, 2),
            _ => SeekMode::Empty,
        };
        let blocks = split_blocks(&mut rng, total, bs, variable);
        let plans: Vec<FramePlan> = blocks.iter().map(|b| random_frame_plan(&mut rng, &params, *b)).collect();
        let g = build_stream(&params, &pcm, &plans);
        let mut rules = Rules::STRICT;
        if variable {
            // variable streams made here may contain short non-final blocks; min_block from data
            rules.short_block_last = false;
            rules.blocksize_consistency = false;
        }
        let d = decode_file(&g.bytes, &rules).unwrap_or_else(|e| panic!("case {case} ({sig:?} ch{channels} bps{bps} bs{bs} total{total} var{variable}): {e}\nplans {:?}", plans.iter().map(|p| &p.subs).collect::<Vec<_>>()));
        assert_eq!(d.pcm, pcm, "case {case}");
        assert_eq!(d.frames.len(), plans.len());
        for f in &d.frames {
            for s in &f.subframes {
                *kinds.entry(format!("{:?}", s.kind).split('(').next().unwrap().to_string()).or_insert(0) += 1;
            }
        }
    }
    eprintln!("{kinds:?}");
    assert!(kinds.len() == 4);
}
