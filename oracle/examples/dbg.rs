use flacref::dec::*;
fn main() {
    let args: Vec<String> = std::env::args().collect();
    let j = std::fs::read_to_string(&args[1]).unwrap();
    let key = &args[2];
    let i = j.find(&format!("\"{key}\": \"")).unwrap() + key.len() + 5;
    let e = j[i..].find('"').unwrap();
    let hex = &j[i..i + e];
    let b: Vec<u8> = (0..hex.len() / 2).map(|k| u8::from_str_radix(&hex[2 * k..2 * k + 2], 16).unwrap()).collect();
    let (si, _, _, start) = walk_metadata(&b, false).unwrap();
    println!("{si:?} start {start}");
    let mut off = start;
    while off < b.len() {
        match decode_frame(&b, off, Some(&si), &Rules { sample_fit: false, ..Rules::LENIENT }) {
            Ok((fi, ch)) => {
                println!("frame at {off} len {} bs {} subframes {:?} first samples {:?}", fi.len, fi.block_size, fi.subframes.iter().map(|s| (s.kind, s.wasted, s.part_order)).collect::<Vec<_>>(), &ch[0][..4.min(ch[0].len())]);
                off += fi.len;
            }
            Err(e) => {
                println!("reject at {off}: {e}");
                break;
            }
        }
    }
}
